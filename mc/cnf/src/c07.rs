//! C07 — DIMACS-family and solver-log parsing is independent of layout.
//!
//! E-enum over a layout grammar: an abstract value is rendered as a template of fixed pieces and
//! *layout slots*; each slot has a menu of alternatives the parsers document or test as accepted
//! (alternative 0 = canonical). The full product is enumerated for templates with few slots,
//! otherwise all renderings with at most d non-default slots. Oracle: the parsed value equals the
//! abstract value that was rendered.

use crate::subjects;
use crate::typed::{run_typed, same_numbers, Value};
use mc_core::generic::Spec;
use mc_core::report::Report;
use mc_core::{hex, json, show, unhex, Tier};

#[derive(Clone, Debug)]
pub enum Piece {
    Fixed(Vec<u8>),
    Slot(&'static str, Vec<Vec<u8>>),
}

fn alts(v: &[&[u8]]) -> Vec<Vec<u8>> {
    v.iter().map(|x| x.to_vec()).collect()
}

fn gap() -> Piece {
    Piece::Slot("token gap", alts(&[b" ", b"  ", b"\t", b" \t "]))
}
fn clause_gap() -> Piece {
    Piece::Slot("in-clause gap", alts(&[b" ", b"  ", b"\t", b"\n", b" \n\t", b"\nc in\n\n", b"\r\n", b"\nc\n \t", b" \r\nc x\r\n\r\n", b"\n\nc x\n", b"\n \t\nc a\n\nc b\n\n  "]))
}
fn line_end() -> Piece {
    Piece::Slot("line end", alts(&[b"\n", b"\r\n", b" \n", b"\t\r\n", b"  \t\n"]))
}
fn last_line_end() -> Piece {
    Piece::Slot("last line end", alts(&[b"\n", b"", b"\r\n", b" \t", b" \n\n", b"\nc end", b"\n\n  \n", b"\n  ", b"\n\tc end\n", b"\n \t\n", b"\r\n\r\n", b"\n\r\n", b"\r\n \r\n"]))
}
fn between() -> Piece {
    Piece::Slot("between statements", alts(&[b"", b"c note\n", b"\n", b"c\n", b"c x\r\n", b"  \n", b"\t", b"c a\nc b\n\n", b"\nc x\n", b"  c indented\n", b"c x\n\n\n", b"\n\n\n", b"\r\n", b"\r\n\r\n", b" \r\n", b"c x\r\n\r\n"]))
}
fn before_header() -> Piece {
    Piece::Slot("before header", alts(&[b"", b"\n", b"c comment\n", b"c x\n\n", b"  ", b"\r\n \t", b"c\n", b"c x\n\n\n", b"c\n\n\n\n", b"c a\n\nc b\n\n\n", b"\n\nc x\n\n", b"\r\n", b"c x\r\n\r\n", b"\r\n\r\nc x\r\n"]))
}
fn spelled(n: &str) -> Piece {
    let neg = n.starts_with('-');
    let d = n.trim_start_matches('-');
    let s = if neg { "-" } else { "" };
    Piece::Slot("numeral spelling", vec![n.as_bytes().to_vec(), format!("{s}0{d}").into_bytes(), format!("{s}0000000{d}").into_bytes(), format!("{s}00000000{d}").into_bytes(), format!("{s}{}{d}", "0".repeat(39)).into_bytes(), format!("{s}{}{d}", "0".repeat(70)).into_bytes()])
}
fn terminator() -> Piece {
    Piece::Slot("terminator spelling", alts(&[b"0", b"-0", b"00", b"-000000000"]))
}

/// Template of a formula. `tagged`: None = cnf, Some("w") = wcnf weights, Some("g") = gcnf groups.
pub fn formula_template(kind: &str, header: bool, clauses: &[(Option<String>, Vec<String>)], max_var: &str) -> (Vec<Piece>, Value) {
    let mut t = Vec::new();
    let mut value = Value::default();
    if header {
        t.push(before_header());
        t.push(Piece::Fixed(b"p".to_vec()));
        t.push(gap());
        t.push(Piece::Fixed(kind.as_bytes().to_vec()));
        t.push(gap());
        t.push(spelled(max_var));
        t.push(gap());
        t.push(spelled(&clauses.len().to_string()));
        let mut h = vec![max_var.to_string(), clauses.len().to_string()];
        if kind == "wcnf" {
            t.push(gap());
            t.push(spelled("99"));
            h.push("99".into());
        } else if kind == "gcnf" {
            t.push(gap());
            t.push(spelled("7"));
            h.push("7".into());
        }
        // a header without clauses is the last line of its document
        t.push(if clauses.is_empty() { last_line_end() } else { line_end() });
        value.header = Some(h);
    } else {
        t.push(Piece::Slot("before first statement", alts(&[b"", b"\n", b"c comment\n", b"  ", b"c\n\n"])));
    }
    for (i, (tag, lits)) in clauses.iter().enumerate() {
        if i > 0 || header {
            t.push(between());
        }
        if let Some(tag) = tag {
            if kind == "wcnf" {
                t.push(spelled(tag));
            } else {
                t.push(Piece::Fixed(format!("{{{tag}}}").into_bytes()));
            }
            t.push(clause_gap());
        }
        for l in lits {
            t.push(spelled(l));
            t.push(clause_gap());
        }
        t.push(terminator());
        if i + 1 == clauses.len() {
            t.push(last_line_end());
        } else {
            t.push(line_end());
        }
    }
    value.clauses = clauses.to_vec();
    (t, value)
}

pub fn log_template(status: Option<bool>, known: bool, assignment: &[String], split: &[usize], ignore_unknown: bool) -> (Vec<Piece>, Value) {
    // `split`: number of literals on each value line (the terminating 0 goes on the last line)
    let mut t = Vec::new();
    let other: Vec<&[u8]> = if ignore_unknown { vec![b"", b"c note\n", b"c \n", b"\n", b"c\n", b"hello\n", b" v 1\n", b"c a\nc b\n", b"x\r\n", b"c x\n v 7 0\n", b"c\n s UNSATISFIABLE\n", b"\n\tv 9 0\n", b"seed 42\n", b"starting search\n", b"s\n", b"v\n", b"v1 2 0\n", b"version 3\n", b"cx\n", b"sSATISFIABLE\n"] } else { vec![b"", b"c note\n", b"c \n", b"c a\nc b\n", b"c x\r\n"] };
    let inter = || Piece::Slot("between lines", alts(&other));
    t.push(inter());
    if known {
        t.push(Piece::Fixed(match status {
            Some(true) => b"s SATISFIABLE".to_vec(),
            Some(false) => b"s UNSATISFIABLE".to_vec(),
            None => b"s UNKNOWN".to_vec(),
        }));
        t.push(Piece::Slot("line end", alts(&[b"\n", b"\r\n"])));
        t.push(inter());
    }
    if !split.is_empty() {
        let mut k = 0;
        for (li, &n) in split.iter().enumerate() {
            t.push(Piece::Fixed(b"v ".to_vec()));
            t.push(Piece::Slot("blanks after v", alts(&[b"", b" ", b"\t "])));
            for _ in 0..n {
                t.push(spelled(&assignment[k]));
                t.push(gap());
                k += 1;
            }
            let last = li + 1 == split.len();
            if last {
                t.push(terminator());
                t.push(Piece::Slot("after terminator", alts(&[b"", b" ", b"\t"])));
                t.push(Piece::Slot("last line end", alts(&[b"\n", b"", b"\r\n"])));
            } else {
                t.push(Piece::Slot("line end", alts(&[b"\n", b"\r\n"])));
                t.push(inter());
            }
        }
    }
    if !split.is_empty() {
        // something may follow the assignment only if its last line ended with a newline: keep it simple
    }
    let value = Value { header: None, clauses: vec![(None, assignment.to_vec())], status: if known { status.map(|b| b.to_string()) } else { None } };
    (t, value)
}

fn slots_of(t: &[Piece]) -> Vec<usize> {
    t.iter().enumerate().filter(|(_, p)| matches!(p, Piece::Slot(..))).map(|(i, _)| i).collect()
}

fn render(t: &[Piece], choice: &[usize]) -> Vec<u8> {
    // choice[i] = alternative of the i-th slot
    let mut out = Vec::new();
    let mut si = 0;
    for p in t {
        match p {
            Piece::Fixed(b) => out.extend_from_slice(b),
            Piece::Slot(_, a) => {
                out.extend_from_slice(&a[choice[si]]);
                si += 1;
            }
        }
    }
    out
}

/// All slot assignments: full product if it is small, otherwise all with at most `d` non-default slots.
fn assignments(t: &[Piece], d: usize, full_limit: usize) -> (Vec<Vec<usize>>, bool) {
    let slots = slots_of(t);
    let sizes: Vec<usize> = slots.iter().map(|&i| if let Piece::Slot(_, a) = &t[i] { a.len() } else { 1 }).collect();
    let product: f64 = sizes.iter().map(|&s| s as f64).product();
    let mut out = Vec::new();
    if product <= full_limit as f64 {
        let mut cur = vec![0usize; sizes.len()];
        loop {
            out.push(cur.clone());
            let mut i = 0;
            loop {
                if i == sizes.len() {
                    return (out, true);
                }
                cur[i] += 1;
                if cur[i] < sizes[i] {
                    break;
                }
                cur[i] = 0;
                i += 1;
            }
        }
    }
    fn rec(sizes: &[usize], start: usize, left: usize, cur: &mut Vec<usize>, out: &mut Vec<Vec<usize>>) {
        out.push(cur.clone());
        if left == 0 {
            return;
        }
        for i in start..sizes.len() {
            for a in 1..sizes[i] {
                cur[i] = a;
                rec(sizes, i + 1, left - 1, cur, out);
            }
            cur[i] = 0;
        }
    }
    let mut cur = vec![0usize; sizes.len()];
    rec(&sizes, 0, d, &mut cur, &mut out);
    (out, false)
}

fn formulas(kind: &str, tier: Tier) -> Vec<(bool, Vec<(Option<String>, Vec<String>)>, String)> {
    // (with header, clauses, max var)
    let lits = ["1", "-2", "3"];
    let mut clause_shapes: Vec<Vec<String>> = vec![vec![]];
    for a in lits {
        clause_shapes.push(vec![a.to_string()]);
        for b in lits {
            clause_shapes.push(vec![a.to_string(), b.to_string()]);
        }
    }
    clause_shapes.push(vec!["1".into(), "-2".into(), "3".into()]);
    clause_shapes.push(vec!["127".into(), "-127".into()]);
    let tag = |i: usize| match kind {
        "wcnf" => Some(["5", "0", "18446744073709551615"][i % 3].to_string()),
        "gcnf" => Some(["0", "7", "3"][i % 3].to_string()),
        _ => None,
    };
    let mut out = Vec::new();
    for header in [true, false] {
        out.push((header, vec![], "0".to_string()));
        for (i, c) in clause_shapes.iter().enumerate() {
            out.push((header, vec![(tag(i), c.clone())], "127".to_string()));
        }
        let n2 = tier.pick(5, clause_shapes.len());
        for (i, c1) in clause_shapes.iter().enumerate().take(n2) {
            for (j, c2) in clause_shapes.iter().enumerate().take(n2) {
                out.push((header, vec![(tag(i), c1.clone()), (tag(j + 1), c2.clone())], "127".to_string()));
            }
        }
        out.push((header, vec![(tag(0), vec!["1".into()]), (tag(1), vec![]), (tag(2), vec!["-2".into(), "3".into()])], "3".to_string()));
    }
    out
}

fn lit_of(subject_name: &str) -> String {
    subject_name.split('<').nth(1).unwrap().split('>').next().unwrap().to_string()
}

fn check_template(kind: &str, subs: &[Box<dyn mc_core::subject::Subject>], t: &[Piece], value: &Value, d: usize, full_limit: usize, acc: &mut Report) {
    let (assigns, full) = assignments(t, d, full_limit);
    acc.states += 1;
    if full {
        acc.count("templates_enumerated_as_full_product", 1);
    } else {
        acc.count("templates_enumerated_deviation_bounded", 1);
    }
    acc.max("max_slots_in_a_template", slots_of(t).len() as u64);
    for a in &assigns {
        let doc = render(t, a);
        let nondefault = a.iter().filter(|&&x| x != 0).count();
        for subject in subs {
            let name = subject.name();
            let _ = lit_of(&name);
            for spec in [Spec::oneshot(), Spec::uniform(1, None), Spec::uniform(7, Some(7))] {
                acc.evaluations += 1;
                acc.transitions += 1;
                if nondefault >= 2 {
                    acc.nontrivial += 1;
                }
                let verdict = match run_typed(subject.as_ref(), &doc, &spec) {
                    Ok(got) => {
                        let r = same_numbers(&got, value).and_then(|_| if got.status == value.status { Ok(()) } else { Err(format!("status {:?} vs {:?}", got.status, value.status)) });
                        acc.outcome(format!("{kind}:accepted:{}", r.is_ok()));
                        r.err().map(|e| ("different-value", format!("parsed value differs from the rendered one: {e}; got {got:?}")))
                    }
                    Err(end) => {
                        acc.outcome(format!("{kind}:{}", end.kind()));
                        Some(("rejected", format!("a documented layout was rejected: {}", end.short())))
                    }
                };
                if let Some((k, why)) = verdict {
                    let slots: Vec<&str> = t.iter().filter_map(|p| if let Piece::Slot(n, _) = p { Some(*n) } else { None }).collect();
                    let used: Vec<&str> = a.iter().enumerate().filter(|(_, &x)| x != 0).map(|(i, _)| slots[i]).collect();
                    let key = format!("{kind}/layout/{k}/{}", used.first().copied().unwrap_or("canonical").replace(' ', "-"));
                    acc.violation_with(&key, (nondefault * 10000 + doc.len()) as u64, || {
                        (format!("{name} on {:?} (non-default slots: {used:?}) [{}]: {why}; rendered value {value:?}", show(&doc), spec.describe()), json!({"property": "C07", "subject": name, "input_hex": hex(&doc), "input": show(&doc), "spec": spec.to_json(), "expected": {"header": value.header, "clauses": value.clauses.iter().map(|(t, l)| json!([t, l])).collect::<Vec<_>>(), "status": value.status}}))
                    });
                }
            }
        }
    }
}

pub fn run(tier: Tier, report: &mut Report) {
    let d = tier.pick(2, 3);
    let full_limit = tier.pick(3000, 60000);
    let lits: Vec<&str> = tier.pick(vec!["i32"], subjects::LITS.to_vec());
    for kind in ["cnf", "wcnf", "gcnf"] {
        let subs = subjects::subjects(kind, &lits, &[false, true]);
        let fs = formulas(kind, tier);
        let total = mc_core::par::par_fold(
            fs.len(),
            mc_core::threads(),
            Report::new,
            |acc, i| {
                let (header, clauses, maxv) = &fs[i];
                let (t, value) = formula_template(kind, *header, clauses, maxv);
                // larger templates get a smaller deviation bound to keep the run inside its budget
                let slots = slots_of(&t).len();
                let dd = if slots > 14 { d.min(tier.pick(1, 2)) } else { d };
                check_template(kind, &subs, &t, &value, dd, full_limit, acc);
            },
            |a, b| a.merge(b),
        );
        report.merge(total);
        report.completed.push(format!("{kind}: {} abstract formulas (with and without header) x layout renderings (full product up to {full_limit}, otherwise <= {d} non-default slots) x {} subjects x {{one-shot, byte-wise, 7 bytes with chunk 7}}", fs.len(), subs.len()));
    }
    // solver logs
    let assignments_: Vec<Vec<String>> = vec![vec![], vec!["1".into()], vec!["1".into(), "-2".into()], vec!["1".into(), "-2".into(), "3".into()], vec!["-1".into(), "2".into(), "-3".into(), "127".into()]];
    let mut logs: Vec<(Option<bool>, bool, Vec<String>, Vec<usize>)> = Vec::new();
    for (status, known) in [(None, false), (Some(true), true), (Some(false), true), (None, true)] {
        logs.push((status, known, vec![], vec![]));
        for a in &assignments_ {
            // every split of the assignment over 1..=3 value lines
            let n = a.len();
            logs.push((status, known, a.clone(), vec![n]));
            for i in 0..=n {
                logs.push((status, known, a.clone(), vec![i, n - i]));
                for j in i..=n {
                    if tier == Tier::Thorough || n <= 2 {
                        logs.push((status, known, a.clone(), vec![i, j - i, n - j]));
                    }
                }
            }
        }
    }
    for ignore in [false, true] {
        let subs = subjects::subjects("log", &lits, &[ignore]);
        let total = mc_core::par::par_fold(
            logs.len(),
            mc_core::threads(),
            Report::new,
            |acc, i| {
                let (status, known, a, split) = &logs[i];
                let (t, value) = log_template(*status, *known, a, split, ignore);
                let slots = slots_of(&t).len();
                let dd = if slots > 12 { d.min(tier.pick(1, 2)) } else { d };
                check_template("log", &subs, &t, &value, dd, full_limit, acc);
            },
            |a, b| a.merge(b),
        );
        report.merge(total);
    }
    report.completed.push(format!("log: {} abstract logs (status x assignment x split over 1..=3 value lines) x layout renderings x ignore_unknown_lines in {{false,true}}", logs.len()));
    report.traces = report.evaluations;
    let (t, v) = formula_template("cnf", true, &[(None, vec!["1".into(), "-2".into()]), (None, vec![])], "2");
    let (a, _) = assignments(&t, 1, 10);
    report.sample(json!({"value": format!("{v:?}"), "canonical": show(&render(&t, &a[0])), "one_slot_changed": show(&render(&t, &a[a.len() / 2])), "slots": slots_of(&t).len()}));
}

pub fn replay(v: &mc_core::Value) -> (bool, String) {
    let name = v["subject"].as_str().unwrap();
    let subject = subjects::by_name(name);
    let input = unhex(v["input_hex"].as_str().unwrap());
    let spec = Spec::from_json(&v["spec"]);
    let e = &v["expected"];
    let expected = Value {
        header: e["header"].as_array().map(|a| a.iter().map(|x| x.as_str().unwrap().to_string()).collect()),
        clauses: e["clauses"].as_array().unwrap().iter().map(|c| (c[0].as_str().map(|s| s.to_string()), c[1].as_array().unwrap().iter().map(|x| x.as_str().unwrap().to_string()).collect())).collect(),
        status: e["status"].as_str().map(|s| s.to_string()),
    };
    let mut text = format!("{name} on {:?} [{}]\n  rendered value: {expected:?}\n", show(&input), spec.describe());
    match run_typed(subject.as_ref(), &input, &spec) {
        Ok(got) => {
            text.push_str(&format!("  parsed value:   {got:?}\n"));
            let ok = same_numbers(&got, &expected).is_ok() && got.status == expected.status;
            (!ok, text)
        }
        Err(end) => {
            text.push_str(&format!("  rejected: {}\n", end.short()));
            (true, text)
        }
    }
}

pub const RULE: &str = "abstract value (formulas with <=2-3 clauses of length <=3 over {1,-2,3,127}, with/without header, wcnf weights {5,0,u64::MAX}, gcnf groups {0,7,3}; solver logs: status in {none,SAT,UNSAT,UNKNOWN} x assignment of length 0..4 x every split over 1..3 value lines) x rendering: layout slots {before header, token gaps, in-clause gaps incl. line breaks with comment/blank lines and CRLF, line ends with trailing blanks, between statements, numeral spelling with leading zeros, terminator spelling 0/-0/00, final newline; for logs: comment (and, with ignore_unknown_lines, arbitrary) lines in every inter-line slot, blanks after 'v', value line ends}; full product for small templates, otherwise all renderings with at most d non-default slots; x {one-shot, byte-wise, 7 bytes per read with chunk 7}. Renderings are distinct by construction; non-trivial = at least two non-default slots (interactions)";

/// Renderings with at most one non-default layout slot of a few formulas (used by C09: line-wise
/// delivery must hand out each clause at the end of its completing line in every layout).
pub fn renderings_d1(kind: &str) -> Vec<mc_core::generic::Doc> {
    let tag = |i: usize| match kind {
        "wcnf" => Some(["5", "0", "18446744073709551615"][i % 3].to_string()),
        "gcnf" => Some(["0", "7", "3"][i % 3].to_string()),
        _ => None,
    };
    let l = |v: &[&str]| v.iter().map(|x| x.to_string()).collect::<Vec<String>>();
    let forms: Vec<(bool, Vec<(Option<String>, Vec<String>)>)> = vec![
        (true, vec![(tag(0), l(&["1", "-2"])), (tag(1), l(&[])), (tag(2), l(&["3"]))]),
        (false, vec![(tag(0), l(&["1", "-2", "3"])), (tag(1), l(&["-1"]))]),
        (true, vec![(tag(1), l(&["12345678", "-123456789"]))]),
    ];
    let mut out = Vec::new();
    for (header, clauses) in forms {
        let (t, _) = formula_template(kind, header, &clauses, "123456789");
        let (assigns, _) = assignments(&t, 1, 0);
        for a in assigns {
            out.push(mc_core::generic::Doc::new("layout", render(&t, &a)));
        }
    }
    mc_core::generic::dedup_docs(out)
}

#!/bin/bash
# Regenerate c09_golden.json (completion offsets of the pinned baseline) from the UNCHANGED tree of
# /repo. Run after the corpus or the C09 subjects change; never on a tree with experimental changes.
set -e
cd "$(dirname "$0")/.."
git -C /repo diff --quiet || { echo "refusing: /repo has uncommitted changes"; exit 1; }
rm -f c09_golden.json
MC_C09_WRITE_GOLDEN=1 ./check C09 quick | tail -1
MC_C09_WRITE_GOLDEN=1 ./check C09 thorough | tail -1
./check C09 quick | tail -1

//! Small-scope document generators for BTOR2.

use mc_core::generic::{byte_sweep, comment_byte_docs, dedup_docs, digit_byte_docs, single_edit_neighbours, token_sequences, Doc, MARKERS};
use mc_core::Tier;

pub const UNARY: [&str; 7] = ["not", "inc", "dec", "neg", "redand", "redor", "redxor"];
pub const BINARY: [&str; 40] = [
    "iff", "implies", "eq", "neq", "ugt", "sgt", "ugte", "sgte", "ult", "slt", "ulte", "slte", "and", "nand", "nor", "or", "xnor", "xor", "rol", "ror", "sll", "sra", "srl", "add", "mul", "udiv", "sdiv", "smod", "urem",
    "srem", "sub", "uaddo", "saddo", "sdivo", "umulo", "smulo", "usubo", "ssubo", "concat", "read",
];
pub const TERNARY: [&str; 2] = ["ite", "write"];

/// A document that uses every keyword once (the keyword scanner has its own SWAR path).
pub fn everything() -> Vec<u8> {
    let mut s = String::new();
    s.push_str("; a comment\n1 sort bitvec 1\n2 sort bitvec 10\n3 sort array 1 2\n");
    s.push_str("4 const 2 0101010101\n5 constd 2 19\n6 constd 2 -90\n7 consth 2 fF\n8 one 1\n9 ones 2\n10 zero 1\n");
    s.push_str("11 input 2 in\n12 state 3 mem ; the memory\n13 sext 2 8 9\n14 uext 2 8 9\n15 slice 1 11 0 0\n");
    let mut id = 16;
    for op in UNARY {
        s.push_str(&format!("{id} {op} 2 11\n"));
        id += 1;
    }
    for op in BINARY {
        s.push_str(&format!("{id} {op} 2 11 11\n"));
        id += 1;
    }
    for op in TERNARY {
        s.push_str(&format!("{id} {op} 2 8 11 11\n"));
        id += 1;
    }
    s.push_str(&format!("{id} init 3 12 12\n{} next 3 12 12\n", id + 1));
    id += 2;
    for k in ["bad", "constraint", "fair", "output"] {
        s.push_str(&format!("{id} {k} 8\n"));
        id += 1;
    }
    s.push_str(&format!("{id} justice 3 8 10 8 sym ;c\n"));
    s.into_bytes()
}

pub fn corpus() -> Vec<Doc> {
    let d = |n: &str, b: &[u8]| Doc::new(format!("btor2:{n}"), b.to_vec());
    vec![
        d("empty", b""),
        d("tiny", b"1 sort bitvec 8\n2 input 1 x\n"),
        d("small", b"1 sort bitvec 8\n2 input 1 x\n3 add 1 2 2 ; sum\n4 bad 3\n"),
        d("comments", b"; first\n;\n1 sort bitvec 1 ;trailing\n\n  \n2 zero 1 z ;; double\n; last without newline"),
        d("symbols", b"1 sort bitvec 1\n2 input 1 a;b\n3 state 1 \xff\xfe\n4 constd 1 -\n"),
        d("big-ids", b"18446744073709551615 sort bitvec 18446744073709551615\n9 sort array 18446744073709551615 18446744073709551615\n10 uext 9 9 0\n"),
        d("justice", b"1 sort bitvec 1\n2 one 1\n3 justice 1 2\n4 justice 3 2 2 2 j\n"),
        d("keywords-8-10", b"1 sort bitvec 1\n2 input 1\n3 constraint 2\n4 implies 1 2 2\n5 redxor 1 2\n"),
        d("everything", &everything()),
    ]
}

pub fn tokens() -> Vec<&'static [u8]> {
    vec![
        b" ", b"\n", b"1", b"0", b"10", b"18446744073709551615", b"18446744073709551616", b"sort", b"bitvec", b"array", b"const", b"constd", b"consth", b"input", b"state", b"add", b"constraint", b"justice", b"ite", b";", b"x",
        b"-", b"ff", b"\xff", b"1 sort bitvec 1\n", b"2 input 1", b"abcdefgh", b"abcdefghi", b"\r",
    ]
}

/// A well-formed model of about 50 KiB (more than three default chunks): many nodes with symbols,
/// trailing comments, comment lines and blank lines.
pub fn long_docs() -> Vec<Doc> {
    let mut d = b"; long model\n1 sort bitvec 8\n2 sort bitvec 1\n3 input 1 first\n".to_vec();
    let mut id = 3usize;
    while d.len() < 50_000 {
        id += 1;
        let line = match id % 7 {
            0 => format!("{id} input 1 in{id}\n"),
            1 => format!("{id} add 1 {} {} ; sum {}\n", id - 1, 3, "s".repeat(id % 19)),
            2 => format!("{id} not 1 {}\n", id - 1),
            3 => format!("{id} eq 2 {} {} cmp{id}\n", id - 1, id - 2),
            4 => format!("{id} constd 1 {}\n", id % 200),
            5 => format!("{id} ite 1 {} {} {}\n", id - 2, id - 1, 3),
            _ => format!("{id} slice 2 {} 0 0\n", id - 1),
        };
        d.extend_from_slice(line.as_bytes());
        if id % 40 == 0 {
            d.extend_from_slice(format!("; comment {id}\n\n").as_bytes());
        }
    }
    d.extend_from_slice(format!("{} bad {}\n", id + 1, id - 3).as_bytes());
    let mut bad = d.clone();
    let k = bad.len() * 2 / 3;
    bad[k] = b'?';
    // very long comment lines, trailing comments and symbols, each followed by more
    let mut c1 = b"; ".to_vec();
    c1.extend(std::iter::repeat(b'x').take(100_000));
    c1.extend_from_slice(b"\n1 sort bitvec 8\n2 input 1 a\n");
    let mut c2 = b"1 sort bitvec 8 ; ".to_vec();
    c2.extend(std::iter::repeat(b'y').take(100_000));
    c2.extend_from_slice(b"\n2 input 1 a\n; end\n");
    let mut c3 = b"1 sort bitvec 8\n2 input 1 ".to_vec();
    c3.extend(std::iter::repeat(b'z').take(100_000));
    c3.extend_from_slice(b"\n3 not 1 2\n");
    vec![Doc::new("^btor2:long", d), Doc::new("^btor2:long-corrupted", bad), Doc::new("^btor2:long-comment-line", c1), Doc::new("^btor2:long-trailing-comment", c2), Doc::new("^btor2:long-symbol", c3)]
}

pub struct Inputs {
    pub corpus: Vec<Doc>,
    pub neighbours: Vec<Doc>,
    pub sequences: Vec<Doc>,
}

pub fn inputs(tier: Tier) -> Inputs {
    inputs_seq(tier, 3)
}

pub fn inputs_seq(tier: Tier, seq_len: usize) -> Inputs {
    let corpus = dedup_docs(corpus());
    let mut nb = Vec::new();
    for d in &corpus {
        if d.bytes.len() > tier.pick(70, 200) {
            continue;
        }
        nb.extend(single_edit_neighbours(d, &MARKERS));
    }
    // every byte value at every position of the short corpus documents
    for d in &corpus {
        let base = d.name.rsplit(':').next().unwrap_or("");
        let quick_base = matches!(base, "std" | "assignment-first" | "and" | "tiny");
        if (tier == Tier::Quick && quick_base) || (tier == Tier::Thorough && (8..=60).contains(&d.bytes.len())) {
            nb.extend(byte_sweep(d));
        }
    }
    // number tokens followed by every byte value (id and width positions)
    nb.extend(digit_byte_docs("btor2-width", b"1 sort bitvec ", b"\n", false));
    nb.extend(digit_byte_docs("btor2-id", b"", b" sort bitvec 1\n", false));
    // comment and symbol text with every byte value in every lane
    nb.extend(comment_byte_docs("btor2-comment", b"1 sort bitvec 1 ; ", b"2 input 1\n"));
    nb.extend(comment_byte_docs("btor2-comment-line", b"; ", b"1 sort bitvec 1\n"));
    nb.extend(comment_byte_docs("btor2-symbol", b"1 sort bitvec 1\n2 input 1 ", b"3 not 1 2\n"));
    nb.extend(long_docs());
    let sequences = dedup_docs(token_sequences(&tokens(), seq_len));
    // all short strings over a 10-symbol alphabet (arbitrary inputs)
    let mut sequences = sequences;
    sequences.extend(mc_core::generic::all_strings(b"12 \n;sort", tier.pick(4, 6)));
    let sequences = dedup_docs(sequences);
    Inputs { corpus, neighbours: dedup_docs(nb), sequences }
}

impl Inputs {
    pub fn all(&self) -> Vec<Doc> {
        let mut v = self.corpus.clone();
        v.extend(self.neighbours.iter().cloned());
        v.extend(self.sequences.iter().cloned());
        dedup_docs(v)
    }
}

//! Typed view of what a DIMACS-family subject returned (numbers as decimal strings), obtained by
//! reading back the harness' own item rendering; and an independent lexical reader of the bytes.

use mc_core::generic::{run_spec, Spec};
use mc_core::subject::{End, Subject};

#[derive(Clone, Debug, PartialEq, Eq, Default)]
pub struct Value {
    /// header fields as decimal strings (vars, clauses[, top weight | group count])
    pub header: Option<Vec<String>>,
    /// (weight or group, literals)
    pub clauses: Vec<(Option<String>, Vec<String>)>,
    /// solver log: Some("true"/"false") / None
    pub status: Option<String>,
}

fn list(s: &str) -> Vec<String> {
    let inner = s.trim().trim_start_matches('[').trim_end_matches(']');
    if inner.trim().is_empty() {
        vec![]
    } else {
        inner.split(',').map(|x| x.trim().to_string()).collect()
    }
}

/// Parse the items emitted by `subjects.rs` back into a typed value.
pub fn value_of_items(items: &[String]) -> Value {
    let mut v = Value::default();
    for it in items {
        if let Some(rest) = it.strip_prefix("header ") {
            v.header = Some(rest.split(' ').map(|f| f.split('=').nth(1).unwrap().to_string()).collect());
        } else if let Some(rest) = it.strip_prefix("clause ") {
            if let Some(r) = rest.strip_prefix("w=").or_else(|| rest.strip_prefix("g=")) {
                let (tag, l) = r.split_once(' ').unwrap();
                v.clauses.push((Some(tag.to_string()), list(l)));
            } else {
                v.clauses.push((None, list(rest)));
            }
        } else if let Some(rest) = it.strip_prefix("log sat=") {
            let (sat, l) = rest.split_once(" assignment=").unwrap();
            v.status = match sat {
                "Some(true)" => Some("true".into()),
                "Some(false)" => Some("false".into()),
                _ => None,
            };
            v.clauses.push((None, list(l)));
        }
    }
    v
}

pub fn run_typed(subject: &dyn Subject, input: &[u8], spec: &Spec) -> Result<Value, End> {
    let ex = run_spec(subject, input, spec);
    match ex.end {
        End::Clean => Ok(value_of_items(&ex.items)),
        other => Err(other),
    }
}

/// Independent lexical reading of a DIMACS-family document (no flussab code): lines split at LF,
/// lines whose first non-blank byte is 'c' dropped, tokens split on blanks/CR, decimals kept as
/// strings. Returns None when the token structure is not the plain shape this reader understands.
pub fn lex(kind: &str, input: &[u8]) -> Option<Value> {
    let text = String::from_utf8_lossy(input);
    let mut tokens: Vec<String> = Vec::new();
    let mut header: Option<Vec<String>> = None;
    let mut seen_statement = false;
    for line in text.split('\n') {
        let t = line.trim_matches(|c| c == ' ' || c == '\t' || c == '\r');
        if t.starts_with('c') {
            continue;
        }
        if t.is_empty() {
            continue;
        }
        if t.starts_with('p') && !seen_statement && header.is_none() {
            let f: Vec<&str> = t.split(|c| c == ' ' || c == '\t').filter(|x| !x.is_empty()).collect();
            let want = if kind == "cnf" { 4 } else { 5 };
            if f.len() != want || f[0] != "p" || f[1] != kind {
                return None;
            }
            header = Some(f[2..].iter().map(|s| s.to_string()).collect());
            seen_statement = true;
            continue;
        }
        seen_statement = true;
        for tok in t.split(|c| c == ' ' || c == '\t' || c == '\r').filter(|x| !x.is_empty()) {
            // a closing brace ends the group token even without a blank after it ("{1}-2 0")
            match (kind, tok.find('}')) {
                ("gcnf", Some(i)) if tok.starts_with('{') && i + 1 < tok.len() => {
                    tokens.push(tok[..=i].to_string());
                    tokens.push(tok[i + 1..].to_string());
                }
                _ => tokens.push(tok.to_string()),
            }
        }
    }
    let is_int = |s: &str| {
        let d = s.strip_prefix('-').unwrap_or(s);
        !d.is_empty() && d.bytes().all(|b| b.is_ascii_digit())
    };
    let is_zero = |s: &str| is_int(s) && s.trim_start_matches('-').bytes().all(|b| b == b'0');
    let mut v = Value { header, ..Default::default() };
    let mut i = 0;
    while i < tokens.len() {
        let mut tag = None;
        if kind == "wcnf" {
            if !is_int(&tokens[i]) || tokens[i].starts_with('-') {
                return None;
            }
            tag = Some(tokens[i].clone());
            i += 1;
        } else if kind == "gcnf" {
            let t = &tokens[i];
            let inner = t.strip_prefix('{')?.strip_suffix('}')?;
            if !is_int(inner) || inner.starts_with('-') {
                return None;
            }
            tag = Some(inner.to_string());
            i += 1;
        }
        let mut lits = Vec::new();
        loop {
            let t = tokens.get(i)?;
            if !is_int(t) {
                return None;
            }
            i += 1;
            if is_zero(t) {
                break;
            }
            lits.push(t.clone());
        }
        v.clauses.push((tag, lits));
    }
    Some(v)
}

/// Independent reading of the value lines of a solver log: the whitespace separated tokens of the
/// lines that start with "v ", up to the first zero. `None` when one of them is not a decimal
/// integer, when something follows the zero on its line, or when the zero is missing.
pub fn lex_log_assignment(input: &[u8]) -> Option<Vec<String>> {
    let text = String::from_utf8_lossy(input);
    let is_int = |s: &str| {
        let d = s.strip_prefix('-').unwrap_or(s);
        !d.is_empty() && d.bytes().all(|b| b.is_ascii_digit())
    };
    let mut lits = Vec::new();
    let mut started = false;
    for line in text.split('\n') {
        let Some(rest) = line.strip_prefix("v ") else { continue };
        started = true;
        let mut toks = rest.split(|c| c == ' ' || c == '\t' || c == '\r').filter(|x| !x.is_empty());
        while let Some(t) = toks.next() {
            if !is_int(t) {
                return None;
            }
            if t.trim_start_matches('-').bytes().all(|b| b == b'0') {
                return if toks.next().is_none() { Some(lits) } else { None };
            }
            lits.push(t.to_string());
        }
    }
    if started {
        None
    } else {
        Some(lits)
    }
}

/// Numeric equality of two typed values (decimal strings compared as big numbers).
pub fn same_numbers(a: &Value, b: &Value) -> Result<(), String> {
    use mc_core::bigdec::eq;
    match (&a.header, &b.header) {
        (None, None) => {}
        (Some(x), Some(y)) => {
            if x.len() != y.len() || x.iter().zip(y.iter()).any(|(p, q)| !eq(p, q)) {
                return Err(format!("header {x:?} vs {y:?}"));
            }
        }
        (x, y) => return Err(format!("header {x:?} vs {y:?}")),
    }
    if a.clauses.len() != b.clauses.len() {
        return Err(format!("{} clauses vs {}", a.clauses.len(), b.clauses.len()));
    }
    for (i, ((ta, la), (tb, lb))) in a.clauses.iter().zip(b.clauses.iter()).enumerate() {
        match (ta, tb) {
            (None, None) => {}
            (Some(x), Some(y)) if eq(x, y) => {}
            _ => return Err(format!("clause {i}: weight/group {ta:?} vs {tb:?}")),
        }
        if la.len() != lb.len() || la.iter().zip(lb.iter()).any(|(p, q)| !eq(p, q)) {
            return Err(format!("clause {i}: {la:?} vs {lb:?}"));
        }
    }
    Ok(())
}

pub fn max_dimacs(lit: &str) -> String {
    match lit {
        "i8" => i8::MAX.to_string(),
        "i16" => i16::MAX.to_string(),
        "i32" => i32::MAX.to_string(),
        _ => isize::MAX.to_string(),
    }
}

/// Does the returned data respect every limit the input declares / the type imposes?
pub fn check_limits(kind: &str, lit: &str, ignore_header: bool, v: &Value) -> Result<(), String> {
    use mc_core::bigdec::{eq, le};
    let maxd = max_dimacs(lit);
    let mut lit_limit = maxd.clone();
    let mut clause_limit: Option<String> = None;
    let mut group_limit: Option<String> = None;
    if let Some(h) = &v.header {
        if !le(&h[0], &maxd) {
            return Err(format!("variable count {} exceeds the literal type's maximum {maxd}", h[0]));
        }
        if !ignore_header {
            if !eq(&h[0], "0") {
                lit_limit = h[0].clone();
            }
            if !eq(&h[1], "0") {
                clause_limit = Some(h[1].clone());
            }
            if kind == "gcnf" && !eq(&h[2], "0") {
                group_limit = Some(h[2].clone());
            }
        }
    }
    for (i, (tag, lits)) in v.clauses.iter().enumerate() {
        for l in lits {
            let mag = l.trim_start_matches('-');
            if !le(mag, &lit_limit) {
                return Err(format!("clause {i}: literal {l} exceeds the limit {lit_limit}"));
            }
            if eq(l, "0") {
                return Err(format!("clause {i}: contains literal 0"));
            }
        }
        if let (Some(g), Some(lim)) = (tag, &group_limit) {
            if !le(g, lim) {
                return Err(format!("clause {i}: group {g} exceeds the declared group count {lim}"));
            }
        }
    }
    if let Some(c) = clause_limit {
        if kind != "log" && !eq(&c, &v.clauses.len().to_string()) {
            return Err(format!("{} clauses returned before a clean end, the header declares {c}", v.clauses.len()));
        }
    }
    Ok(())
}

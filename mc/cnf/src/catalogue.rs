//! C08 exact-location clause: single-token corruptions of well-formed DIMACS-family documents
//! whose error position is unambiguous. The generator records line and column span of the token.

use mc_core::generic::{Corruption, Doc};

#[derive(Clone, Debug)]
pub struct Tok {
    pub start: usize,
    pub end: usize, // exclusive
    pub line: usize,
    pub col: usize, // 1-based column of the first byte
}

/// Whitespace separated tokens with line/column (lines split at LF, columns in bytes).
pub fn tokens_of(b: &[u8]) -> Vec<Tok> {
    let mut out = Vec::new();
    let (mut line, mut line_start) = (1usize, 0usize);
    let mut i = 0;
    while i < b.len() {
        if b[i] == b'\n' {
            line += 1;
            line_start = i + 1;
            i += 1;
        } else if b[i] == b' ' || b[i] == b'\t' || b[i] == b'\r' {
            i += 1;
        } else {
            let s = i;
            while i < b.len() && !b" \t\r\n".contains(&b[i]) {
                i += 1;
            }
            out.push(Tok { start: s, end: i, line, col: s - line_start + 1 });
        }
    }
    out
}

fn splice(b: &[u8], t: &Tok, with: &[u8]) -> Vec<u8> {
    let mut v = b[..t.start].to_vec();
    v.extend_from_slice(with);
    v.extend_from_slice(&b[t.end..]);
    v
}

fn is_number(s: &[u8]) -> bool {
    let d = s.strip_prefix(b"-").unwrap_or(s);
    !d.is_empty() && d.iter().all(|c| c.is_ascii_digit())
}

pub fn bases(kind: &str, flag: bool) -> Vec<Vec<u8>> {
    let mut long = match kind {
        "cnf" => b"p cnf 9 0\n".to_vec(),
        "wcnf" => b"p wcnf 9 0 99\n".to_vec(),
        "gcnf" => b"p gcnf 9 0 5\n".to_vec(),
        _ => Vec::new(),
    };
    for i in 0..12 {
        match kind {
            "cnf" => long.extend_from_slice(format!("{} -{} 0\n", i % 9 + 1, (i + 3) % 9 + 1).as_bytes()),
            "wcnf" => long.extend_from_slice(format!("{} {} -{} 0\n", i + 1, i % 9 + 1, (i + 3) % 9 + 1).as_bytes()),
            "gcnf" => long.extend_from_slice(format!("{{{}}} {} -{} 0\n", i % 5, i % 9 + 1, (i + 3) % 9 + 1).as_bytes()),
            _ => {}
        }
    }
    // layout variants: lines reached through a blank line and indented; clauses split over lines
    // with indented continuation lines (line_start / mark handling after `newline`)
    let variants: Vec<Vec<u8>> = match kind {
        "cnf" => vec![b"p cnf 3 2\n\n  1 -3 0\n\n\t2 3 -1 0\n".to_vec(), b"p cnf 3 2\n1\n  -3 0\n2 3\n\t -1\n   0\n".to_vec(), b"\n  p cnf 3 2\n1 -3 0\n2 3 -1 0\n".to_vec()],
        "wcnf" => vec![b"p wcnf 3 2 10\n\n  10 1 -2 0\n\n\t3 2 3 0\n".to_vec(), b"p wcnf 3 2 10\n10\n  1 -2 0\n3\n\t2 3\n   0\n".to_vec()],
        "gcnf" => vec![b"p gcnf 3 2 2\n\n  {1} 1 -2 0\n\n\t{2} 3 0\n".to_vec(), b"p gcnf 3 2 2\n{1}\n  1 -2 0\n{2}\n\t3\n   0\n".to_vec()],
        _ => vec![],
    };
    let mut all = variants;
    all.extend(match kind {
        "cnf" => vec![b"p cnf 3 2\n1 -3 0\n2 3 -1 0\n".to_vec(), long],
        "wcnf" => vec![b"p wcnf 3 2 10\n10 1 -2 0\n3 2 3 0\n".to_vec(), long],
        "gcnf" => vec![b"p gcnf 3 2 2\n{1} 1 -2 0\n{2} 3 0\n".to_vec(), long],
        "log" => {
            let mut v = vec![b"s SATISFIABLE\nv 1 -2 3\nv -4 0\n".to_vec(), b"c foo\ns SATISFIABLE\nc bar\nv 1 -2 3\nc baz\nv -4 0\n".to_vec()];
            if flag {
                // ignore_unknown_lines: skipped lines (also empty ones) in front of every statement
                v.push(b"hello world\ns SATISFIABLE\n\nnoise\nv 1 -2 3\nc comment\nmore noise here\nv -4 0\n".to_vec());
                v.push(b"x\nv 7 0\n".to_vec());
            }
            v
        }
        _ => vec![],
    });
    all
}

pub fn corruptions(kind: &str) -> Vec<Corruption> {
    corruptions_flag(kind, false)
}

/// `flag`: the parser option of the subjects the catalogue is meant for (ignore_unknown_lines for the
/// solver log; the DIMACS catalogue relies on the header being enforced and is only built for false).
pub fn corruptions_flag(kind: &str, flag: bool) -> Vec<Corruption> {
    let mut out = Vec::new();
    let huge = {
        let mut h = b"1".to_vec();
        h.extend(std::iter::repeat(b'0').take(40));
        h
    };
    for base in bases(kind, flag) {
        let toks = tokens_of(&base);
        // the header is the line that starts with the token "p"
        let header_line = toks.iter().find(|t| &base[t.start..t.end] == b"p").map_or(0, |t| t.line);
        for (i, t) in toks.iter().enumerate() {
            let text = &base[t.start..t.end];
            let mut push = |what: &str, with: &[u8], span: usize| {
                out.push(Corruption { doc: Doc::new(format!("{kind}:{what}@{i}"), splice(&base, t, with)), line: t.line, col_first: t.col, col_last: t.col + span - 1, what: format!("{what} at token #{i} ({:?})", String::from_utf8_lossy(text)) });
            };
            if kind == "log" {
                // status keyword and literals
                if text == b"SATISFIABLE" {
                    push("garbage keyword", b"SATISFIABL", 10);
                }
                if is_number(text) && text != b"0" {
                    push("overflowing literal", &huge, huge.len());
                    push("garbage token", b"x", 1);
                }
                continue;
            }
            // a garbage token in place of any token
            push("garbage token", b"x", 1);
            if is_number(text) {
                push("overflowing number", &huge, huge.len());
            }
            if text.starts_with(b"{") {
                let mut g = b"{".to_vec();
                g.extend_from_slice(&huge);
                g.push(b'}');
                push("overflowing group", &g, g.len());
                // group beyond the declared group count
                push("group out of range", b"{77}", 4);
            }
            // literal beyond the declared variable count: only clause literals (not the header, not the
            // terminating zero, not a wcnf weight = first token of a line)
            let is_header = t.line == header_line;
            let first_on_line = i == 0 || toks[i - 1].line != t.line;
            if !is_header && is_number(text) && text != b"0" && !(kind == "wcnf" && first_on_line) {
                push("literal out of range", b"77", 2);
                push("negative literal out of range", b"-77", 3);
            }
            // missing separator: this token glued to the next one when that starts with '-'
            if let Some(n) = toks.get(i + 1) {
                if n.line == t.line && base[n.start] == b'-' && is_number(text) && n.start == t.end + 1 {
                    let mut v = base[..t.end].to_vec();
                    v.extend_from_slice(&base[n.start..]);
                    out.push(Corruption { doc: Doc::new(format!("{kind}:glued@{i}"), v), line: t.line, col_first: t.col, col_last: t.col + (t.end - t.start) + (n.end - n.start) - 1, what: format!("missing separator after token #{i}") });
                }
            }
        }
    }
    // bad counts: detection point is by design the following token / the end of the file
    match kind {
        "cnf" => {
            out.push(Corruption { doc: Doc::new("cnf:count+1", b"p cnf 3 3\n1 -3 0\n2 3 -1 0\n".to_vec()), line: 4, col_first: 1, col_last: 1, what: "clause count one too large: detected at the end of the file".into() });
            out.push(Corruption { doc: Doc::new("cnf:count-1", b"p cnf 3 1\n1 -3 0\n2 3 -1 0\n".to_vec()), line: 3, col_first: 1, col_last: 1, what: "clause count one too small: detected at the first token of the extra clause".into() });
        }
        "wcnf" => {
            out.push(Corruption { doc: Doc::new("wcnf:count+1", b"p wcnf 3 3 10\n10 1 -2 0\n3 2 3 0\n".to_vec()), line: 4, col_first: 1, col_last: 1, what: "clause count one too large: detected at the end of the file".into() });
            out.push(Corruption { doc: Doc::new("wcnf:count-1", b"p wcnf 3 1 10\n10 1 -2 0\n3 2 3 0\n".to_vec()), line: 3, col_first: 1, col_last: 1, what: "clause count one too small".into() });
        }
        "gcnf" => {
            out.push(Corruption { doc: Doc::new("gcnf:count+1", b"p gcnf 3 3 2\n{1} 1 -2 0\n{2} 3 0\n".to_vec()), line: 4, col_first: 1, col_last: 1, what: "clause count one too large: detected at the end of the file".into() });
            out.push(Corruption { doc: Doc::new("gcnf:count-1", b"p gcnf 3 1 2\n{1} 1 -2 0\n{2} 3 0\n".to_vec()), line: 3, col_first: 1, col_last: 3, what: "clause count one too small".into() });
        }
        _ => {}
    }
    out
}

//! C03 — write . parse is the identity (AIGER ascii and binary).

use crate::flat::{flat_of_aig, flat_of_ordered, parse_with, Parsed};
use crate::refparse::Flat;
use crate::subjects::LitName;
use flussab::DeferredWriter;
use flussab_aiger::aig::{Aig, OrderedAig, OrderedAndGate, OrderedLatch, Symbol, SymbolTarget};
use flussab_aiger::{ascii, binary};
use mc_core::generic::{Doc, Spec};
use mc_core::report::Report;
use mc_core::subject::{catch, short_loc};
use mc_core::{hex, json, show, unhex, Tier};
use std::borrow::Cow;
use std::io::Write;

#[derive(Clone, Copy, Debug, PartialEq, Eq)]
pub enum Path {
    AsciiAig,
    AsciiOrdered,
    BinaryOrdered,
}

fn write_with<L: LitName>(path: Path, o: &OrderedAig<L>) -> Result<Vec<u8>, String> {
    let r = catch(|| {
        let mut out = Vec::new();
        match path {
            Path::AsciiAig => {
                let aig: Aig<L> = o.clone().into();
                let mut w = DeferredWriter::from_write(&mut out);
                ascii::Writer::<L>::new(&mut w).write_aig(&aig);
                w.flush().unwrap();
            }
            Path::AsciiOrdered => {
                let mut w = DeferredWriter::from_write(&mut out);
                ascii::Writer::<L>::new(&mut w).write_ordered_aig(o);
                w.flush().unwrap();
            }
            Path::BinaryOrdered => {
                let w = DeferredWriter::from_write(&mut out);
                let mut bw = binary::Writer::<L>::new(w);
                bw.write_ordered_aig(o);
                bw.writer.flush().unwrap();
            }
        }
        out
    });
    r.map_err(|(m, l)| format!("writer panicked: {m} @ {}", short_loc(&l)))
}

/// What parsing the written text must give back, as a flat description.
fn expected_flat<L: LitName>(path: Path, o: &OrderedAig<L>) -> Flat {
    match path {
        Path::BinaryOrdered => flat_of_ordered(o),
        _ => {
            let aig: Aig<L> = o.clone().into();
            flat_of_aig(&aig)
        }
    }
}

fn names() -> Vec<&'static str> {
    vec!["", "a", "a b", "\u{e9}\u{2713}", "c"]
}

/// Small-scope enumeration of well-formed circuits in consecutive numbering.
fn values<L: LitName>(tier: Tier) -> Vec<OrderedAig<L>> {
    let q = tier == Tier::Quick;
    let l = |c: usize| L::from_code(c);
    let mut out = Vec::new();
    let comments: Vec<Option<&str>> = if q { vec![None, Some(""), Some("a\nb")] } else { vec![None, Some(""), Some("x"), Some("a\nb"), Some("c\n")] };
    let max_gates = tier.pick(2, 3);
    for i in 0..=2usize {
        for nl in 0..=2usize {
            for g in 0..=max_gates {
                for extra_m in [0usize, 1] {
                    let m = i + nl + g + extra_m;
                    if 2 * m + 1 > L::MAX_CODE {
                        continue;
                    }
                    let top = 2 * m + 1;
                    let lit_choices: Vec<usize> = {
                        let mut v = vec![0, 1, top, top - (top > 0) as usize];
                        v.sort();
                        v.dedup();
                        v
                    };
                    let latch_patterns: Vec<(usize, Option<bool>)> = {
                        let mut v = Vec::new();
                        for (k, &n) in lit_choices.iter().enumerate() {
                            for init in [Some(false), Some(true), None] {
                                if q && (k + init.map_or(2, |b| b as usize)) % 2 == 1 {
                                    continue;
                                }
                                v.push((n, init));
                            }
                        }
                        v
                    };
                    let gate_patterns = if q { 3 } else { 5 };
                    let list_patterns: Vec<[usize; 4]> = if q {
                        vec![[0, 0, 0, 0], [1, 1, 1, 1], [2, 0, 1, 0], [0, 0, 0, 2], [0, 1, 0, 0]]
                    } else {
                        vec![[0, 0, 0, 0], [1, 1, 1, 1], [2, 2, 2, 2], [2, 0, 1, 0], [0, 1, 0, 2], [0, 0, 0, 1], [0, 0, 1, 0], [0, 1, 0, 0], [1, 0, 0, 0]]
                    };
                    let justice_patterns: Vec<Vec<usize>> = if q { vec![vec![], vec![0], vec![2, 0], vec![0, 1], vec![1, 0, 2], vec![0, 0, 1]] } else { vec![vec![], vec![0], vec![1], vec![2, 0], vec![0, 1], vec![2, 2], vec![1, 0, 2], vec![0, 0, 1], vec![2, 0, 0, 1]] };
                    for (lp, &(lnext, linit)) in latch_patterns.iter().enumerate() {
                        if nl == 0 && lp > 0 {
                            break;
                        }
                        for gp in 0..gate_patterns {
                            if g == 0 && gp > 0 {
                                break;
                            }
                            for lists in &list_patterns {
                                for just in &justice_patterns {
                                    // keep the product in check: vary justice only with the first two list patterns
                                    if !just.is_empty() && lists[0] + lists[1] + lists[2] + lists[3] > 4 {
                                        continue;
                                    }
                                    let latches: Vec<OrderedLatch<L>> = (0..nl).map(|k| OrderedLatch { next_state: l(if k == 0 { lnext } else { lit_choices[(lp + k) % lit_choices.len()] }), initialization: if k == 0 { linit } else { [Some(false), None, Some(true)][(lp + k) % 3] } }).collect();
                                    let mut gates: Vec<OrderedAndGate<L>> = Vec::new();
                                    for k in 0..g {
                                        let code = 2 * (1 + i + nl + k);
                                        let (a, b) = match gp {
                                            0 => (code - 1, code - 2),
                                            1 => (1, 0),
                                            2 => (code - 2, code - 2),
                                            3 => (code - 1, 0),
                                            _ => (0, 0),
                                        };
                                        gates.push(OrderedAndGate { inputs: [l(a), l(b)] });
                                    }
                                    let mk_list = |n: usize, off: usize| -> Vec<L> { (0..n).map(|k| l(lit_choices[(k + off) % lit_choices.len()])).collect() };
                                    let outputs = mk_list(lists[0], 0);
                                    let bad = mk_list(lists[1], 1);
                                    let cons = mk_list(lists[2], 2);
                                    let fair = mk_list(lists[3], 3);
                                    let justice: Vec<Vec<L>> = just.iter().enumerate().map(|(k, &n)| mk_list(n, k)).collect();
                                    // symbols: one per non-empty section at its last index, names cycling
                                    let mut symbol_sets: Vec<Vec<Symbol<'static>>> = vec![vec![]];
                                    let mut all = Vec::new();
                                    let ns = names();
                                    let mut add = |t: SymbolTarget, k: usize| all.push(Symbol { target: t, name: Cow::Borrowed(ns[k % ns.len()]) });
                                    if i > 0 {
                                        add(SymbolTarget::Input(i - 1), lp);
                                    }
                                    if nl > 0 {
                                        add(SymbolTarget::Latch(nl - 1), gp + 1);
                                    }
                                    if !outputs.is_empty() {
                                        add(SymbolTarget::Output(outputs.len() - 1), 2);
                                        add(SymbolTarget::Output(0), 0);
                                    }
                                    if !bad.is_empty() {
                                        add(SymbolTarget::BadStateProperty(bad.len() - 1), 3);
                                    }
                                    if !cons.is_empty() {
                                        add(SymbolTarget::InvariantConstraint(cons.len() - 1), 4);
                                    }
                                    if !justice.is_empty() {
                                        add(SymbolTarget::JusticeProperty(justice.len() - 1), 1);
                                    }
                                    if !fair.is_empty() {
                                        add(SymbolTarget::FairnessConstraint(fair.len() - 1), 2);
                                    }
                                    if !all.is_empty() {
                                        symbol_sets.push(all.clone());
                                        if !q && all.len() > 1 {
                                            symbol_sets.push(vec![all[all.len() - 1].clone()]);
                                        }
                                    }
                                    for syms in &symbol_sets {
                                        for (ci, c) in comments.iter().enumerate() {
                                            // comments vary fully only on the symbol-free variant and the first list pattern
                                            if ci > 1 && !(syms.is_empty() || lists == &list_patterns[0]) {
                                                continue;
                                            }
                                            out.push(OrderedAig {
                                                max_var_index: m,
                                                input_count: i,
                                                latches: latches.clone(),
                                                outputs: outputs.clone(),
                                                bad_state_properties: bad.clone(),
                                                invariant_constraints: cons.clone(),
                                                justice_properties: justice.clone(),
                                                fairness_constraints: fair.clone(),
                                                and_gates: gates.clone(),
                                                symbols: syms.clone(),
                                                comment: c.map(|s| s.to_string()),
                                            });
                                        }
                                    }
                                }
                            }
                        }
                    }
                }
            }
        }
    }
    // 7-bit codes of every length without huge files: inputs are implicit in the binary format
    if L::MAX_CODE >= u32::MAX as usize {
        for k in 1..=9u32 {
            for delta in [-1i64, 0, 1] {
                let base = 1u128 << (7 * k - 1);
                let ic = (base as i128 + delta as i128) as u128;
                let m = ic + 1;
                if 2 * m + 1 > L::MAX_CODE as u128 || ic == 0 {
                    continue;
                }
                let ic = ic as usize;
                let code = 2 * (ic + 1);
                for (a, b) in [(2usize, 0usize), (code - 2, 1), (code - 1, code - 2), (3, 2)] {
                    out.push(OrderedAig { max_var_index: ic + 1, input_count: ic, and_gates: vec![OrderedAndGate { inputs: [l(a), l(b)] }], outputs: vec![l(code)], ..OrderedAig::default() });
                }
            }
        }
        // every variable used as an input
        let mmax = (L::MAX_CODE - 1) / 2;
        out.push(OrderedAig { max_var_index: mmax, input_count: mmax, outputs: vec![l(2 * mmax + 1)], ..OrderedAig::default() });
        // the last variable is a latch / an and gate
        out.push(OrderedAig { max_var_index: mmax, input_count: mmax - 1, latches: vec![OrderedLatch { next_state: l(2 * mmax + 1), initialization: None }], outputs: vec![l(2 * mmax)], ..OrderedAig::default() });
        out.push(OrderedAig { max_var_index: mmax, input_count: mmax - 1, and_gates: vec![OrderedAndGate { inputs: [l(3), l(2)] }], outputs: vec![l(2 * mmax)], ..OrderedAig::default() });
    }
    out
}

fn check_value<L: LitName>(path: Path, o: &OrderedAig<L>, acc: &mut Report) {
    // the ascii paths write one line per input: skip the huge-input-count family there
    if path != Path::BinaryOrdered && o.input_count > 64 {
        return;
    }
    acc.evaluations += 1;
    acc.transitions += 2;
    if !o.symbols.is_empty() || o.comment.is_some() || !o.and_gates.is_empty() {
        acc.nontrivial += 1;
    }
    let fmt = if path == Path::BinaryOrdered { "aig" } else { "aag" };
    let text = match write_with(path, o) {
        Ok(t) => t,
        Err(e) => {
            let key = format!("{fmt}/roundtrip/writer-panic");
            acc.violation_with(&key, 0, || (format!("{path:?}<{}>: {e} on a well-formed value (M={}, I={}, L={}, A={})", L::NAME, o.max_var_index, o.input_count, o.latches.len(), o.and_gates.len()), json!({"property": "C03", "format": fmt, "lit": L::NAME, "direction": "value", "note": "writer panic; value not replayable from text"})));
            return;
        }
    };
    let expected = expected_flat(path, o);
    let verdict = match parse_with::<L>(&text, path == Path::BinaryOrdered, &Spec::oneshot()) {
        Ok(p) => {
            let got = match p {
                Parsed::Ascii(a) => flat_of_aig(&a),
                Parsed::Binary(a) => flat_of_ordered(&a),
            };
            if got == expected {
                None
            } else {
                Some(("differs".to_string(), format!("parse(write(v)) != v: parsed {got:?}, written value {expected:?}")))
            }
        }
        Err(end) => Some((format!("rejected/{}", reject_class(&end.short())), format!("the writer's output was rejected: {}", end.short()))),
    };
    acc.outcome(format!("{fmt}:{}", verdict.as_ref().map_or("identity", |v| &v.0)));
    if let Some((k, why)) = verdict {
        let key = format!("{fmt}/roundtrip/{k}");
        acc.violation_with(&key, text.len() as u64, || (format!("{path:?}<{}> wrote {:?}: {why}", L::NAME, show(&text)), json!({"property": "C03", "format": fmt, "lit": L::NAME, "direction": "written-text", "input_hex": hex(&text), "input": show(&text), "expected": format!("{expected:?}")})));
    }
}

fn reject_class(short: &str) -> String {
    // message class without numbers: "syntax@1:13 bad state property count 1 exceeds ..." -> words only
    let msg = short.splitn(2, ' ').nth(1).unwrap_or(short);
    let words: Vec<&str> = msg.split(' ').filter(|w| !w.is_empty() && !w.chars().any(|c| c.is_ascii_digit())).take(6).collect();
    words.join("-").replace(['"', '\''], "")
}

/// Text payloads: one small circuit with symbol names and comment texts that start / end with
/// blanks, tabs, carriage returns or line feeds, or look like other syntax.
fn text_values<L: LitName>() -> Vec<OrderedAig<L>> {
    use flussab_aiger::aig::SymbolTarget;
    use std::borrow::Cow;
    let names = ["", " ", " a", "  a", "a ", "a  ", "\ta", "a\t", "a\rb", "\r", "a\r", "c", "c0", "i0", "i0 x", "0", "\u{e9}", " \u{2713} ", "#"];
    let comments = ["", "\n", "x", "x\n", "x\r", "\r", "\r\n", "x\r\n", "a\r\nb", "a\n\nb", "\n\n", " lead", "trail ", "\tx", "c\n", "c", "i0 x", "\u{e9}\u{2713}", "x\n\r"];
    let base = |symbols: Vec<Symbol<'static>>, comment: Option<String>| OrderedAig {
        max_var_index: 1,
        input_count: 1,
        latches: vec![],
        outputs: vec![L::from_code(2)],
        bad_state_properties: vec![],
        invariant_constraints: vec![L::from_code(3)],
        justice_properties: vec![],
        fairness_constraints: vec![],
        and_gates: vec![],
        symbols,
        comment,
    };
    let mut out = Vec::new();
    for n in names {
        for target in [SymbolTarget::Input(0), SymbolTarget::Output(0), SymbolTarget::InvariantConstraint(0)] {
            for c in [None, Some("note")] {
                out.push(base(vec![Symbol { target, name: Cow::Borrowed(n) }], c.map(|s| s.to_string())));
            }
        }
    }
    for c in comments {
        out.push(base(vec![], Some(c.to_string())));
        out.push(base(vec![Symbol { target: SymbolTarget::Output(0), name: Cow::Borrowed("o") }], Some(c.to_string())));
    }
    out
}

/// Large sections: every section (and a single justice property) with 1023 / 1024 / 1025 / 1100
/// entries - the parsers pre-allocate at most 1024 entries per section, so sizes around that limit
/// are where a clamped loop bound or a lost tail would show. Not for u8 (the literals do not fit).
fn large_values<L: LitName>() -> Vec<OrderedAig<L>> {
    use flussab_aiger::aig::{OrderedAndGate, OrderedLatch, SymbolTarget};
    use std::borrow::Cow;
    let mut out = Vec::new();
    if L::MAX_CODE < 8000 {
        return out;
    }
    let l = |c: usize| L::from_code(c);
    for n in [1023usize, 1024, 1025, 1100] {
        let empty = || OrderedAig { max_var_index: 2, input_count: 2, latches: vec![], outputs: vec![], bad_state_properties: vec![], invariant_constraints: vec![], justice_properties: vec![], fairness_constraints: vec![], and_gates: vec![], symbols: vec![], comment: None };
        let lits: Vec<L> = (0..n).map(|k| l([2, 3, 4, 5, 0, 1][k % 6])).collect();
        let mut v = empty();
        v.outputs = lits.clone();
        out.push(v);
        let mut v = empty();
        v.bad_state_properties = lits.clone();
        out.push(v);
        let mut v = empty();
        v.invariant_constraints = lits.clone();
        out.push(v);
        let mut v = empty();
        v.fairness_constraints = lits.clone();
        out.push(v);
        // one long justice property (between two short ones), and many short ones
        let mut v = empty();
        v.justice_properties = vec![vec![l(2)], lits.clone(), vec![l(5), l(4)]];
        out.push(v);
        let mut v = empty();
        v.justice_properties = (0..n).map(|k| if k % 3 == 0 { vec![] } else { vec![l(2 + k % 4)] }).collect();
        out.push(v);
        // many inputs, latches, gates, symbols
        let mut v = empty();
        v.max_var_index = n;
        v.input_count = n;
        v.outputs = vec![l(2 * n)];
        v.symbols = (0..n).map(|k| Symbol { target: SymbolTarget::Input(k), name: Cow::Owned(format!("in{k}")) }).collect();
        out.push(v);
        let mut v = empty();
        v.max_var_index = 2 + n;
        v.latches = (0..n).map(|k| OrderedLatch { next_state: l(2 + k % 4), initialization: [None, Some(false), Some(true)][k % 3] }).collect();
        v.outputs = vec![l(2 * (2 + n))];
        out.push(v);
        let mut v = empty();
        v.max_var_index = 2 + n;
        v.and_gates = (0..n).map(|k| OrderedAndGate { inputs: [l(2 * (2 + k) + (k & 1)), l(2 + k % 2)] }).collect();
        v.outputs = vec![l(2 * (2 + n) + 1)];
        v.comment = Some("large".to_string());
        out.push(v);
    }
    out
}

fn run_lit<L: LitName>(tier: Tier, report: &mut Report) {
    let mut vals = values::<L>(tier);
    vals.extend(text_values::<L>());
    let large = large_values::<L>();
    report.count(&format!("large_section_values_{}", L::NAME), large.len() as u64);
    vals.extend(large);
    report.count(&format!("values_{}", L::NAME), vals.len() as u64);
    let total = mc_core::par::par_fold(
        vals.len(),
        mc_core::threads(),
        Report::new,
        |acc, i| {
            acc.states += 1;
            for path in [Path::AsciiAig, Path::AsciiOrdered, Path::BinaryOrdered] {
                check_value(path, &vals[i], acc);
            }
        },
        |a, b| a.merge(b),
    );
    report.merge(total);
}

/// direction text -> value -> text -> value
fn text_roundtrip<L: LitName>(binary: bool, input: &[u8]) -> Option<Option<(String, String)>> {
    let p1 = parse_with::<L>(input, binary, &Spec::oneshot()).ok()?;
    let (f1, text) = match &p1 {
        Parsed::Ascii(a) => {
            let r = catch(|| {
                let mut out = Vec::new();
                let mut w = DeferredWriter::from_write(&mut out);
                ascii::Writer::<L>::new(&mut w).write_aig(a);
                w.flush().unwrap();
                drop(w);
                out
            });
            (flat_of_aig(a), r)
        }
        Parsed::Binary(a) => {
            let r = catch(|| {
                let mut out = Vec::new();
                let w = DeferredWriter::from_write(&mut out);
                let mut bw = binary::Writer::<L>::new(w);
                bw.write_ordered_aig(a);
                bw.writer.flush().unwrap();
                drop(bw);
                out
            });
            (flat_of_ordered(a), r)
        }
    };
    let text = match text {
        Ok(t) => t,
        Err((m, l)) => return Some(Some(("writer-panic".into(), format!("writing the parsed value panicked: {m} @ {}", short_loc(&l))))),
    };
    Some(match parse_with::<L>(&text, binary, &Spec::oneshot()) {
        Ok(p2) => {
            let f2 = match p2 {
                Parsed::Ascii(a) => flat_of_aig(&a),
                Parsed::Binary(a) => flat_of_ordered(&a),
            };
            if f2 == f1 {
                None
            } else {
                Some(("differs".into(), format!("parse(write(parse(t))) != parse(t): {f2:?} vs {f1:?}; rewritten {:?}", show(&text))))
            }
        }
        Err(end) => Some((format!("rejected/{}", reject_class(&end.short())), format!("write(parse(t)) = {:?} was rejected: {}", show(&text), end.short()))),
    })
}

fn text_dyn(lit: &str, binary: bool, input: &[u8]) -> Option<Option<(String, String)>> {
    match lit {
        "u8" => text_roundtrip::<u8>(binary, input),
        "u16" => text_roundtrip::<u16>(binary, input),
        "u32" => text_roundtrip::<u32>(binary, input),
        "u64" => text_roundtrip::<u64>(binary, input),
        _ => text_roundtrip::<usize>(binary, input),
    }
}

pub fn run(tier: Tier, report: &mut Report, family_docs: &dyn Fn(&str) -> Vec<Doc>) {
    if tier == Tier::Quick {
        run_lit::<u8>(tier, report);
        run_lit::<u32>(tier, report);
        run_lit::<usize>(tier, report);
    } else {
        run_lit::<u8>(tier, report);
        run_lit::<u16>(tier, report);
        run_lit::<u32>(tier, report);
        run_lit::<u64>(tier, report);
        run_lit::<usize>(tier, report);
    }
    report.completed.push("value -> text -> value: small-scope circuits (I,L <= 2, gates <= 2/3, M exact or +1, latch next/reset forms, gate input patterns, list length patterns, justice shapes, symbols of every kind at first/last index with names {\"\", a, 'a b', UTF-8, c}, comment forms) through ascii write_aig, ascii write_ordered_aig and the binary writer; binary deltas of every byte length via implicit input counts".into());
    let lits: Vec<&str> = tier.pick(vec!["u8", "u32", "u16", "u64", "usize"], crate::subjects::LITS.to_vec());
    for format in ["aag", "aig"] {
        let docs = family_docs(format);
        let mut extra = Vec::new();
        for l in &lits {
            extra.extend(crate::c06::boundary_docs(format, l));
        }
        let mut docs = docs;
        docs.extend(extra);
        let docs = mc_core::generic::dedup_docs(docs);
        for lit in &lits {
            let total = mc_core::par::par_fold(
                docs.len(),
                mc_core::threads(),
                Report::new,
                |acc, i| {
                    acc.evaluations += 1;
                    acc.transitions += 1;
                    let input = &docs[i].bytes;
                    if let Some(v) = text_dyn(lit, format == "aig", input) {
                        acc.nontrivial += 1;
                        acc.count("accepted_texts_round_tripped", 1);
                        if let Some((k, why)) = v {
                            let key = format!("{format}/roundtrip/{k}");
                            acc.violation_with(&key, input.len() as u64, || (format!("{format}<{lit}> on accepted text {:?}: {why}", show(input)), json!({"property": "C03", "format": format, "lit": lit, "direction": "text", "input_hex": hex(input), "input": show(input)})));
                        }
                    }
                },
                |a, b| a.merge(b),
            );
            report.merge(total);
        }
        report.completed.push(format!("{format}: parse-write-parse on {} documents (C01 families + C06 boundary documents) x {lits:?}", docs.len()));
    }
    report.traces = report.evaluations;
    let v = values::<u8>(Tier::Quick);
    let o = &v[v.len() / 2];
    report.sample(json!({"value": format!("{:?}", flat_of_ordered(o)), "ascii": show(&write_with(Path::AsciiAig, o).unwrap()), "binary": show(&write_with(Path::BinaryOrdered, o).unwrap())}));
}

pub fn replay(v: &mc_core::Value) -> (bool, String) {
    let lit = v["lit"].as_str().unwrap();
    let binary = v["format"] == "aig";
    if v["input_hex"].is_null() {
        return (true, "writer panic on a generated value (not replayable from text); re-run the check".into());
    }
    let input = unhex(v["input_hex"].as_str().unwrap());
    let spec = Spec::oneshot();
    let mut text = format!("{} <{lit}> on {:?}\n", v["format"].as_str().unwrap(), show(&input));
    let parsed = crate::flat::flat_dyn(lit, &input, binary, &spec);
    text.push_str(&format!("  parse: {:?}\n", parsed.as_ref().map_err(|e| e.short())));
    if v["direction"] == "written-text" {
        // the text was produced by flussab's writer from a well-formed value: it must be accepted
        // and mean the value it was written from
        return match parsed {
            Err(_) => (true, text),
            Ok(f) => {
                let same = v["expected"].as_str().map_or(true, |e| e == format!("{f:?}"));
                if !same {
                    text.push_str(&format!("  written value: {}\n", v["expected"].as_str().unwrap()));
                }
                (!same, text)
            }
        };
    }
    match text_dyn(lit, binary, &input) {
        None => (false, text),
        Some(None) => (false, text),
        Some(Some((k, why))) => {
            text.push_str(&format!("  {k}: {why}\n"));
            (true, text)
        }
    }
}

pub const RULE: &str = "value -> text -> value over a small-scope enumeration of well-formed circuits (see 'completed') through three writer paths and literal types; text -> value -> text -> value on every accepted document of the C01 families and the C06 boundary documents. Values are distinct by construction; non-trivial = values with gates, symbols or a comment / accepted texts";

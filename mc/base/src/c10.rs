//! C10, reader half — streaming memory is bounded by chunk size and largest item, for streams of
//! EVERY length: explicit-state search to a fixpoint.
//!
//! The real `DeferredReader` reads an endless position-stamped stream; a consumer alphabet models any
//! parser whose items are at most `m` bytes (`request_byte_at_offset(k)` for k < m, `advance(n)` for
//! 1 <= n <= min(m, buf_len)); every read delivers any r in 1..=chunk (a choice). The state key is the
//! buffer-management state (pos_in_buf, valid_len, buf.len(), capacity, chunk) with `pos_of_buf`, the
//! stream offset and the mark dropped: the buffer management only ever adds to `pos_of_buf` and never
//! reads the mark, so two states that agree on the key have the same future memory behaviour. If the
//! frontier empties, the bound holds for all stream lengths.

use flussab::DeferredReader;
use mc_core::bfs::bfs;
use mc_core::choice::explore;
use mc_core::report::Report;
use mc_core::source::{stamped, Grain, Menu, ScriptedSource, SourceCfg};
use mc_core::{json, Budget, Tier};

#[derive(Clone, Debug, PartialEq, Eq)]
enum Op {
    /// one refill (`request_more`), enabled while fewer than m bytes are buffered: a look-ahead
    /// `request_byte_at_offset(k)` with k < m is a sequence of these
    More,
    /// `request(m)` / `request_byte_at_offset(m - 1)`: the refill loops of the look-ahead entry
    /// points themselves (every schedule of read sizes with at most two departures from full chunks)
    Request(usize),
    ByteAt(usize),
    Advance(usize),
    SetChunk(usize),
}

#[derive(Clone, Debug)]
struct Step {
    op: Op,
    choices: Vec<(u32, u32)>,
}

fn apply(r: &mut DeferredReader, op: &Op) {
    match op {
        Op::More => {
            r.request_more();
        }
        Op::Request(n) => {
            r.request(*n);
        }
        Op::ByteAt(k) => {
            r.request_byte_at_offset(*k);
        }
        Op::Advance(n) => r.advance(*n),
        Op::SetChunk(c) => r.set_chunk_size(*c),
    }
}

fn key(r: &DeferredReader) -> Vec<u8> {
    let st = r.verif_state();
    let mut k = Vec::new();
    for v in [st.pos_in_buf, st.valid_len, st.buf_len, st.buf_capacity, st.chunk_size] {
        k.extend_from_slice(&(v as u32).to_le_bytes());
    }
    k
}

struct Cfg {
    chunk: usize,
    m: usize,
    /// mid-stream chunk size changes between these values (thorough)
    chunks: Vec<usize>,
}

fn bound(cfg: &Cfg) -> usize {
    let c = cfg.chunks.iter().copied().max().unwrap_or(cfg.chunk).max(cfg.chunk);
    // generous against the code's own pos_in_buf <= 2*chunk + m, len <= pos_in_buf + valid_len + chunk
    8 * c + 4 * cfg.m + 64
}

fn replay<'d>(cfg: &Cfg, data: &'d [u8], hist: &[Step], extra: &[(u32, u32)]) -> (DeferredReader<'d>, mc_core::source::SharedSrc) {
    let mut forced: Vec<(u32, u32)> = hist.iter().flat_map(|s| s.choices.iter().copied()).collect();
    forced.extend_from_slice(extra);
    let (src, st) = ScriptedSource::new(SourceCfg::new(data, Grain::Choose(Menu::AllSizes)), forced);
    let mut r = DeferredReader::from_read(src);
    r.set_chunk_size(cfg.chunk);
    for s in hist {
        apply(&mut r, &s.op);
    }
    (r, st)
}

fn expand(cfg: &Cfg, data: &[u8], hist: &Vec<Step>, report: &mut Report) -> Vec<(Vec<Step>, Vec<u8>)> {
    let (r, _) = replay(cfg, data, hist, &[]);
    let bl = r.buf_len();
    let cur_chunk = r.verif_state().chunk_size;
    drop(r);
    let mut ops: Vec<Op> = Vec::new();
    if bl < cfg.m {
        ops.push(Op::More);
        if cfg.m > 1 {
            ops.push(Op::Request(cfg.m));
            ops.push(Op::ByteAt(cfg.m - 1));
        }
    }
    for n in 1..=cfg.m.min(bl) {
        ops.push(Op::Advance(n));
    }
    for &c in &cfg.chunks {
        if c != cur_chunk {
            ops.push(Op::SetChunk(c));
        }
    }
    let base_len: usize = hist.iter().map(|s| s.choices.len()).sum();
    let limit = bound(cfg);
    let mut succ = Vec::new();
    for op in ops {
        let r = explore(
            if matches!(op, Op::Request(_) | Op::ByteAt(_)) { Some(2) } else { None },
            |prefix| {
                let (mut r, st) = replay(cfg, data, hist, &prefix);
                apply(&mut r, &op);
                let s = r.verif_state();
                report.evaluations += 1;
                report.transitions += 1;
                report.max("max_buf_len", s.buf_len as u64);
                report.max("max_buf_capacity", s.buf_capacity as u64);
                let taken = st.borrow().chooser.taken[base_len..].to_vec();
                if let Some(d) = st.borrow().chooser.diverged.clone() {
                    return Err(d);
                }
                if st.borrow().pos + 4 * limit > data.len() {
                    report.machinery_errors.push("C10: the finite stand-in for the endless stream ran out".into());
                }
                let mut h2 = hist.clone();
                h2.push(Step { op: op.clone(), choices: taken.clone() });
                if s.buf_len > limit || s.buf_capacity > 2 * limit {
                    report.violation(
                        "reader/streaming-memory/bound",
                        format!("chunk {} item size {}: after {} operations the buffer has len {} / capacity {} (bound {limit} / {})", cfg.chunk, cfg.m, h2.len(), s.buf_len, s.buf_capacity, 2 * limit),
                        json!({"property": "C10", "subject": "DeferredReader", "chunk": cfg.chunk, "m": cfg.m, "history": h2.iter().map(|s| json!([format!("{:?}", s.op), s.choices.iter().map(|c| c.0).collect::<Vec<_>>()])).collect::<Vec<_>>()}),
                        h2.len() as u64,
                    );
                } else {
                    if s.pos_of_buf > 0 {
                        report.nontrivial += 1;
                    }
                    succ.push((h2, key(&r)));
                }
                Ok(taken)
            },
            || false,
        );
        if let Err(e) = r {
            report.machinery_errors.push(format!("C10 nondeterministic replay: {e}"));
        }
    }
    succ
}

/// Deep lanes: every cyclic consumer pattern of length <= 3 over a reduced alphabet, with reads
/// that deliver everything or one byte, repeated 3000 times: a leak of one byte per cycle is far
/// beyond the bound by then even where the breadth-first search has not reached that depth.
fn long_runs(cfg: &Cfg, data: &[u8], report: &mut Report) {
    let mut alpha: Vec<Op> = vec![Op::More, Op::Advance(1)];
    if cfg.m > 1 {
        alpha.push(Op::Advance(cfg.m));
        alpha.push(Op::Request(cfg.m));
        alpha.push(Op::ByteAt(cfg.m - 1));
    }
    if cfg.m > 2 {
        alpha.push(Op::Advance((cfg.m + 1) / 2));
    }
    for &c in &cfg.chunks {
        alpha.push(Op::SetChunk(c));
    }
    let limit = bound(cfg);
    let n = alpha.len();
    let mut patterns: Vec<Vec<usize>> = Vec::new();
    for a in 0..n {
        patterns.push(vec![a]);
        for b in 0..n {
            patterns.push(vec![a, b]);
            for c in 0..n {
                patterns.push(vec![a, b, c]);
            }
        }
    }
    for pat in &patterns {
        for grain in [Grain::OneShot, Grain::Uniform(1)] {
            let (src, st) = ScriptedSource::new(SourceCfg::new(data, grain.clone()), vec![]);
            let mut r = DeferredReader::from_read(src);
            r.set_chunk_size(cfg.chunk);
            let mut applied = 0u64;
            'run: for cycle in 0..3000usize {
                for &i in pat {
                    let op = &alpha[i];
                    let bl = r.buf_len();
                    let enabled = match op {
                        Op::More | Op::Request(_) | Op::ByteAt(_) => bl < cfg.m,
                        Op::Advance(k) => *k <= bl,
                        Op::SetChunk(_) => true,
                    };
                    if !enabled {
                        continue;
                    }
                    apply(&mut r, op);
                    applied += 1;
                    let s = r.verif_state();
                    if s.buf_len > limit || s.buf_capacity > 2 * limit {
                        report.violation(
                            "reader/streaming-memory/bound",
                            format!("chunk {} item size {}: cyclic pattern {:?} ({grain:?} reads), cycle {cycle}: the buffer has len {} / capacity {} (bound {limit} / {})", cfg.chunk, cfg.m, pat.iter().map(|&i| format!("{:?}", alpha[i])).collect::<Vec<_>>(), s.buf_len, s.buf_capacity, 2 * limit),
                            json!({"property": "C10", "subject": "DeferredReader", "chunk": cfg.chunk, "m": cfg.m, "pattern": pat.iter().map(|&i| format!("{:?}", alpha[i])).collect::<Vec<_>>(), "cycle": cycle}),
                            cycle as u64,
                        );
                        break 'run;
                    }
                    if st.borrow().pos + 4 * limit > data.len() {
                        break 'run; // the finite stand-in for the endless stream is used up
                    }
                }
            }
            report.evaluations += applied;
            report.transitions += applied;
            report.count("reader_long_run_lanes", 1);
        }
    }
}

pub fn run(tier: Tier, report: &mut Report) {
    let mut cfgs: Vec<Cfg> = Vec::new();
    let chunks: &[usize] = tier.pick(&[1, 2, 3, 4, 8][..], &[1, 2, 3, 4, 8, 16][..]);
    let ms: &[usize] = tier.pick(&[1, 2, 3, 5, 9][..], &[1, 2, 3, 5, 9, 17, 40][..]);
    for &chunk in chunks {
        for &m in ms {
            if chunk * m > tier.pick(80, 700) {
                continue; // the state space (and the memory for the histories) grows with chunk * m
            }
            cfgs.push(Cfg { chunk, m, chunks: vec![] });
        }
    }
    // mid-stream chunk size changes
    for (a, b, m) in tier.pick(vec![(1usize, 3usize, 2usize)], vec![(1, 3, 2), (2, 8, 3), (1, 4, 5)]) {
        cfgs.push(Cfg { chunk: a, m, chunks: vec![a, b] });
    }
    let budget = Budget::new(tier.pick(30.0, 1200.0));
    let data = stamped(1 << 16);
    let results = mc_core::par::par_map(cfgs.len(), mc_core::threads(), |i| {
        let cfg = &cfgs[i];
        let mut local = Report::new();
        let (r, _) = replay(cfg, &data, &[], &[]);
        let k0 = key(&r);
        drop(r);
        let c = cfg.chunks.iter().copied().max().unwrap_or(cfg.chunk).max(cfg.chunk);
        let predicted = (3 * c + cfg.m + 2) * (cfg.m + c + 2) * 8 * (1 + cfg.chunks.len());
        let res = bfs(vec![(Vec::<Step>::new(), k0)], |h, rep| expand(cfg, &data, h, rep), (100 * predicted + 10_000).min(3_000_000), 4000, &budget, 1, &mut local);
        long_runs(cfg, &data, &mut local);
        (local, res)
    });
    let mut closed = 0;
    for (i, (local, res)) in results.into_iter().enumerate() {
        report.merge(local);
        report.states += res.states;
        if res.closed {
            closed += 1;
        } else {
            // States beyond the bound are reported and never expanded, so the state space is finite
            // and unbounded growth always surfaces as a bound violation: running out of the state
            // cap or the time budget before the frontier empties is a cap, not a verdict.
            report.cap(format!("reader fixpoint: chunk {} item size {} chunk-changes {:?} did not close within the state cap / time budget ({} states, depth {}): bound checked on every state visited only", cfgs[i].chunk, cfgs[i].m, cfgs[i].chunks, res.states, res.depth));
        }
        report.notes.push(format!("chunk {} m {} chunk-changes {:?}: {} states, {} transitions, depth {}, closed={}, bound on buf.len() {}", cfgs[i].chunk, cfgs[i].m, cfgs[i].chunks, res.states, res.transitions, res.depth, res.closed, bound(&cfgs[i])));
    }
    report.count("reader_configurations", cfgs.len() as u64);
    report.count("reader_configurations_closed_to_a_fixpoint", closed);
    if closed as usize == cfgs.len() {
        report.completed.push(format!("reader fixpoint: all {} (chunk, item size) configurations closed: the buffer bound holds for streams of every length", cfgs.len()));
    }
    report.traces = report.transitions;
    report.sample(json!({"configuration": {"chunk": 2, "m": 3}, "history": ["More (read delivers 1)", "More (2)", "Advance(3)", "More (2)", "Advance(1)", "..."], "key": "pos_in_buf, valid_len, buf.len(), capacity, chunk"}));
}

pub const RULE: &str = "reader half: per (chunk, item size m) configuration, BFS to a fixpoint over {request_more while fewer than m bytes are buffered (every request_byte_at_offset(k<m) is a sequence of these), advance(1..=min(m,buf_len)), mid-stream set_chunk_size} x every read size 1..=chunk on an endless stamped stream; key = buffer management state without stream offset / mark; invariant buf.len() <= 8*chunk + 4*m + 64 and capacity <= 2x that in every reachable state; non-trivial = transitions in states whose buffer has been realigned (pos_of_buf > 0). Parser half: see the format parts";

//! Shared machinery of the flussab model-checking harness.
//!
//! * `choice`  – choice points + stateless, deviation-bounded DFS over them (engine E-choice)
//! * `source`  – scripted `Read` implementation whose answers are choice points
//! * `bfs`     – explicit-state breadth-first search over operation histories (engine E-bfs)
//! * `par`     – deterministic parallel map over independent sub-spaces
//! * `report`  – violations, evidence counters, JSON output
//! * `subject` – a parser run as an observable (items + final outcome), panic capture
//! * `bigdec`  – decimal strings as arbitrary precision reference numbers
pub mod abortguard;
pub mod alloc;
pub mod bfs;
pub mod bigdec;
pub mod choice;
pub mod cputime;
pub mod par;
pub mod report;
pub mod source;
pub mod subject;
pub mod generic;
pub mod isolate;

pub use serde_json;
pub use serde_json::{json, Value};

/// Hex encoding used in replay files and samples.
pub fn hex(bytes: &[u8]) -> String {
    let mut s = String::with_capacity(bytes.len() * 2);
    for b in bytes {
        s.push_str(&format!("{:02x}", b));
    }
    s
}

pub fn unhex(s: &str) -> Vec<u8> {
    let b = s.as_bytes();
    (0..b.len() / 2)
        .map(|i| u8::from_str_radix(std::str::from_utf8(&b[2 * i..2 * i + 2]).unwrap(), 16).unwrap())
        .collect()
}

/// Printable rendering of a byte string for samples (lossy, escapes control characters).
pub fn show(bytes: &[u8]) -> String {
    let mut s = String::new();
    for &b in bytes {
        match b {
            b'\n' => s.push_str("\\n"),
            b'\r' => s.push_str("\\r"),
            b'\t' => s.push_str("\\t"),
            b'\\' => s.push_str("\\\\"),
            0x20..=0x7e => s.push(b as char),
            _ => s.push_str(&format!("\\x{:02x}", b)),
        }
    }
    s
}

/// FNV-1a, used for replay file names and cheap state hashing.
pub fn fnv(bytes: &[u8]) -> u64 {
    let mut h: u64 = 0xcbf29ce484222325;
    for &b in bytes {
        h ^= b as u64;
        h = h.wrapping_mul(0x100000001b3);
    }
    h
}

/// Tier of a run.
#[derive(Clone, Copy, PartialEq, Eq, Debug)]
pub enum Tier {
    Quick,
    Thorough,
}

impl Tier {
    pub fn parse(s: &str) -> Tier {
        match s {
            "quick" => Tier::Quick,
            "thorough" => Tier::Thorough,
            _ => panic!("unknown tier {s}"),
        }
    }
    pub fn name(self) -> &'static str {
        match self {
            Tier::Quick => "quick",
            Tier::Thorough => "thorough",
        }
    }
    pub fn pick<T>(self, quick: T, thorough: T) -> T {
        match self {
            Tier::Quick => quick,
            Tier::Thorough => thorough,
        }
    }
}

/// Wall clock budget; engines poll it between sub-spaces.
#[derive(Clone, Copy)]
pub struct Budget {
    pub start: std::time::Instant,
    pub limit: std::time::Duration,
}

impl Budget {
    pub fn new(secs: f64) -> Self {
        Budget { start: std::time::Instant::now(), limit: std::time::Duration::from_secs_f64(secs) }
    }
    pub fn expired(&self) -> bool {
        self.start.elapsed() >= self.limit
    }
    pub fn elapsed(&self) -> f64 {
        self.start.elapsed().as_secs_f64()
    }
}

/// Which build profile this binary was compiled with (checked = debug assertions on).
pub fn build_profile() -> &'static str {
    if cfg!(debug_assertions) {
        "checked"
    } else {
        "wrapping"
    }
}

pub fn threads() -> usize {
    std::env::var("MC_THREADS")
        .ok()
        .and_then(|s| s.parse().ok())
        .unwrap_or_else(|| std::thread::available_parallelism().map(|n| n.get()).unwrap_or(4))
}

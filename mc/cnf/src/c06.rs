//! C06 — accepted input means what it says (DIMACS family).

use crate::subjects;
use crate::typed::{check_limits, lex, run_typed, same_numbers, Value};
use mc_core::bigdec::{add_small, pow10, pow2};
use mc_core::generic::{Doc, Spec};
use mc_core::report::Report;
use mc_core::{hex, json, show, unhex, Tier};

fn boundary_numbers(extra: &[String]) -> Vec<String> {
    let mut v: Vec<String> = vec!["0".into(), "1".into(), "2".into(), "9".into()];
    for k in [7usize, 8, 9] {
        v.push(pow10(k));
        v.push(add_small(&pow10(k), -1));
    }
    for w in [7u32, 8, 15, 16, 31, 32, 63, 64] {
        for d in -1..=1 {
            v.push(add_small(&pow2(w), d));
        }
    }
    v.push("12345678901234567890".into());
    v.push(pow10(39));
    for e in extra {
        for d in -1..=1 {
            let x = add_small(e, d);
            if !x.starts_with('-') {
                v.push(x);
            }
        }
    }
    v.sort();
    v.dedup();
    v
}

pub struct Case {
    pub kind: &'static str,
    pub doc: Vec<u8>,
    pub expected: Value,
    pub what: String,
}

fn spellings(x: &str, tier: Tier) -> Vec<String> {
    let zeros: &[usize] = tier.pick(&[0, 1, 8][..], &[0, 1, 7, 8][..]);
    zeros.iter().map(|&z| format!("{}{}", "0".repeat(z), x)).collect()
}

/// Documents rendered from abstract values whose numbers are big decimals.
pub fn cases(kind: &'static str, tier: Tier) -> Vec<Case> {
    let mut out = Vec::new();
    let clause = |tag: Option<&str>, lits: &[&str]| (tag.map(|t| mc_core::bigdec::canon(t)), lits.iter().map(|l| mc_core::bigdec::canon(l)).collect::<Vec<_>>());
    let hdr = |f: &[&str]| Some(f.iter().map(|x| mc_core::bigdec::canon(x)).collect::<Vec<_>>());
    let nums = boundary_numbers(&["5".into(), "127".into(), "32767".into(), "2147483647".into(), "9223372036854775807".into(), "18446744073709551615".into()]);
    let (p, t, g) = match kind {
        "cnf" => ("", "", ""),
        "wcnf" => ("7 ", " 9", ""),
        "gcnf" => ("{1} ", " 3", ""),
        _ => ("", "", ""),
    };
    let tag: Option<&str> = match kind {
        "wcnf" => Some("7"),
        "gcnf" => Some("1"),
        _ => None,
    };
    let _ = g;
    if kind == "log" {
        for x in &nums {
            for sp in spellings(x, tier) {
                for sign in ["", "-"] {
                    let lit = format!("{sign}{sp}");
                    if mc_core::bigdec::eq(&lit, "0") {
                        continue;
                    }
                    out.push(Case { kind, doc: format!("s SATISFIABLE\nv 1 {lit} 0\n").into_bytes(), expected: Value { header: None, clauses: vec![clause(None, &["1", &lit])], status: Some("true".into()) }, what: format!("assignment literal {lit}") });
                }
            }
        }
        return out;
    }
    for x in &nums {
        for sp in spellings(x, tier) {
            // literal position, with a declared variable count of 0 (unspecified), 5 and x itself
            for sign in ["", "-"] {
                let lit = format!("{sign}{sp}");
                if mc_core::bigdec::eq(&lit, "0") {
                    continue;
                }
                for v in ["0", "5"] {
                    out.push(Case {
                        kind,
                        doc: format!("p {kind} {v} 1{t}\n{p}{lit} 0\n").into_bytes(),
                        expected: Value { header: hdr(&[&[v, "1"][..], &if t.is_empty() { vec![] } else { vec![t.trim()] }[..]].concat()), clauses: vec![clause(tag, &[&lit])], status: None },
                        what: format!("literal {lit} with declared variable count {v}"),
                    });
                }
                out.push(Case { kind, doc: format!("{p}{lit} 1 0\n").into_bytes(), expected: Value { header: None, clauses: vec![clause(tag, &[&lit, "1"])], status: None }, what: format!("headerless literal {lit}") });
            }
            // variable count position
            out.push(Case {
                kind,
                doc: format!("p {kind} {sp} 0{t}\n{p}1 0\n").into_bytes(),
                expected: Value { header: hdr(&[&[&sp[..], "0"][..], &if t.is_empty() { vec![] } else { vec![t.trim()] }[..]].concat()), clauses: vec![clause(tag, &["1"])], status: None },
                what: format!("variable count {sp}"),
            });
            // clause count position (two clauses follow)
            out.push(Case {
                kind,
                doc: format!("p {kind} 2 {sp}{t}\n{p}1 0\n{p}-2 0\n").into_bytes(),
                expected: Value { header: hdr(&[&["2", &sp[..]][..], &if t.is_empty() { vec![] } else { vec![t.trim()] }[..]].concat()), clauses: vec![clause(tag, &["1"]), clause(tag, &["-2"])], status: None },
                what: format!("clause count {sp} with two clauses"),
            });
            match kind {
                "wcnf" => {
                    out.push(Case { kind, doc: format!("{sp} 1 0\n").into_bytes(), expected: Value { header: None, clauses: vec![clause(Some(&sp), &["1"])], status: None }, what: format!("weight {sp}") });
                    out.push(Case { kind, doc: format!("p wcnf 1 1 {sp}\n3 1 0\n").into_bytes(), expected: Value { header: hdr(&["1", "1", &sp]), clauses: vec![clause(Some("3"), &["1"])], status: None }, what: format!("top weight {sp}") });
                }
                "gcnf" => {
                    out.push(Case { kind, doc: format!("{{{sp}}} 1 0\n").into_bytes(), expected: Value { header: None, clauses: vec![clause(Some(&sp), &["1"])], status: None }, what: format!("headerless group {sp}") });
                    out.push(Case { kind, doc: format!("p gcnf 1 1 5\n{{{sp}}} 1 0\n").into_bytes(), expected: Value { header: hdr(&["1", "1", "5"]), clauses: vec![clause(Some(&sp), &["1"])], status: None }, what: format!("group {sp} with declared group count 5") });
                    out.push(Case { kind, doc: format!("p gcnf 1 1 {sp}\n{{2}} 1 0\n").into_bytes(), expected: Value { header: hdr(&["1", "1", &sp]), clauses: vec![clause(Some("2"), &["1"])], status: None }, what: format!("group count {sp} with group 2") });
                }
                _ => {}
            }
        }
    }
    out
}

fn judge(kind: &str, lit: &str, flag: bool, got: &Value, expected: &Value) -> Option<(&'static str, String)> {
    if let Err(e) = same_numbers(got, expected) {
        return Some(("value-mismatch", format!("returned numbers differ from the text: {e}")));
    }
    if kind != "log" {
        if let Err(e) = check_limits(kind, lit, flag, got) {
            return Some(("limit-violated", format!("accepted although {e}")));
        }
    } else {
        // solver log: literals must fit the literal type
        let maxd = crate::typed::max_dimacs(lit);
        for (_, lits) in &got.clauses {
            for l in lits {
                if !mc_core::bigdec::le(l.trim_start_matches('-'), &maxd) {
                    return Some(("limit-violated", format!("accepted although literal {l} exceeds the literal type's maximum {maxd}")));
                }
            }
        }
    }
    None
}

fn lit_of(subject_name: &str) -> String {
    subject_name.split('<').nth(1).unwrap().split('>').next().unwrap().to_string()
}

pub fn run(tier: Tier, report: &mut Report, all_docs: &dyn Fn(&str) -> Vec<Doc>) {
    let lits: Vec<&str> = { let _ = tier; subjects::LITS.to_vec() };
    for kind in subjects::KINDS {
        let subs = subjects::subjects(kind, &lits, &[false, true]);
        // (a) generated with known meaning
        let cs = cases(kind, tier);
        report.count(&format!("{kind}_generated_documents"), cs.len() as u64);
        let units: Vec<(usize, usize)> = (0..cs.len()).flat_map(|c| (0..subs.len()).map(move |s| (s, c))).collect();
        let total = mc_core::par::par_fold(
            units.len(),
            mc_core::threads(),
            Report::new,
            |acc, i| {
                let (si, ci) = units[i];
                let subject = subs[si].as_ref();
                let name = subject.name();
                let flag = name.ends_with("=true");
                let lit = lit_of(&name);
                let case = &cs[ci];
                for spec in [Spec::oneshot(), Spec::uniform(1, None)] {
                    acc.evaluations += 1;
                    acc.transitions += 1;
                    match run_typed(subject, &case.doc, &spec) {
                        Ok(got) => {
                            acc.count("accepted", 1);
                            acc.nontrivial += 1;
                            acc.outcome(format!("{kind}:accepted"));
                            if let Some((k, why)) = judge(kind, &lit, flag && kind != "log", &got, &case.expected) {
                                let key = format!("{kind}/accepted-meaning/{k}");
                                acc.violation_with(&key, case.doc.len() as u64, || {
                                    (format!("{name} accepts {:?} ({}) [{}]: {why}; returned {got:?}", show(&case.doc), case.what, spec.describe()), json!({"property": "C06", "subject": name, "input_hex": hex(&case.doc), "input": show(&case.doc), "spec": spec.to_json()}))
                                });
                            }
                        }
                        Err(end) => {
                            acc.count("rejected", 1);
                            acc.outcome(format!("{kind}:{}", end.kind()));
                            if let mc_core::subject::End::Panic { .. } = &end {
                                // nothing was accepted: a panic is C05's question, not C06's
                                acc.count("executions_that_panicked (not judged here, see C05)", 1);
                            }
                        }
                    }
                }
            },
            |a, b| a.merge(b),
        );
        report.merge(total);
        report.states += cs.len() as u64;
        // (b) every accepted input of the generic families, re-read by the independent lexical reader
        let docs = all_docs(kind);
        let units: Vec<(usize, usize)> = (0..docs.len()).flat_map(|c| (0..subs.len()).map(move |s| (s, c))).collect();
        let total = mc_core::par::par_fold(
            units.len(),
            mc_core::threads(),
            Report::new,
            |acc, i| {
                let (si, di) = units[i];
                let subject = subs[si].as_ref();
                let name = subject.name();
                let flag = name.ends_with("=true");
                let lit = lit_of(&name);
                let input = &docs[di].bytes;
                acc.evaluations += 1;
                acc.transitions += 1;
                // the parsers' own convenience constructors (i32 literals, default configuration), once
                // per document: what they accept must mean what the text says as well
                if si == 0 && kind != "log" {
                    for (cname, items, end) in subjects::via_constructors(kind, input) {
                        if !matches!(end, mc_core::subject::End::Clean) {
                            continue;
                        }
                        acc.evaluations += 1;
                        acc.transitions += 1;
                        let got = crate::typed::value_of_items(&items);
                        let verdict = match lex(kind, input) {
                            None => Some(("not-well-formed", "the independent reader finds no well-formed document".to_string())),
                            Some(lexed) => judge(kind, "i32", false, &got, &lexed).map(|(k, w)| (k, w)),
                        };
                        if let Some((k, why)) = verdict {
                            let key = format!("{kind}/accepted-meaning/{k}/constructor");
                            acc.violation_with(&key, input.len() as u64, || {
                                (format!("{kind} parser built with {cname} accepts {:?}: {why}; returned {got:?}", show(input)), json!({"property": "C06", "subject": format!("{kind}<i32>/ignore_header=false"), "input_hex": hex(input), "input": show(input), "spec": Spec::oneshot().to_json(), "constructor": cname}))
                            });
                        }
                    }
                }
                if let Ok(got) = run_typed(subject, input, &Spec::oneshot()) {
                    let lexed = if kind == "log" {
                        crate::typed::lex_log_assignment(input).map(|lits| Value { header: None, clauses: if lits.is_empty() && got.clauses.is_empty() { vec![] } else { vec![(None, lits)] }, status: got.status.clone() })
                    } else {
                        lex(kind, input)
                    };
                    let report_it = |acc: &mut Report, k: &str, why: String, expected: &Option<Value>| {
                        let key = format!("{kind}/accepted-meaning/{k}");
                        acc.violation_with(&key, input.len() as u64, || {
                            (format!("{name} accepts {:?}: {why}; returned {got:?}, independent reading {expected:?}", show(input)), json!({"property": "C06", "subject": name, "input_hex": hex(input), "input": show(input), "spec": Spec::oneshot().to_json()}))
                        });
                    };
                    match lexed {
                        None => {
                            // accepted, but the text is not a sequence of well-formed numbers in the
                            // plain token structure of the format: the numbers returned cannot be
                            // the numbers written
                            acc.count("accepted_but_not_well_formed_for_the_independent_reader", 1);
                            report_it(acc, "not-well-formed", "the independent reader finds a token that is not a decimal number (or a clause without terminating zero) where the parser returned numbers".to_string(), &None);
                        }
                        Some(lexed) => {
                            acc.nontrivial += 1;
                            acc.count("accepted_and_reread", 1);
                            if let Some((k, why)) = judge(kind, &lit, flag, &got, &lexed) {
                                report_it(acc, k, why, &Some(lexed));
                            }
                        }
                    }
                }
            },
            |a, b| a.merge(b),
        );
        report.merge(total);
        report.completed.push(format!("{kind}: {} generated boundary documents x {} subjects x {{one-shot, byte-wise}}; {} family documents re-read by the independent lexical reader", cs.len(), subs.len(), docs.len()));
        if let Some(c) = cs.get(cs.len() / 2) {
            report.sample(json!({"family": kind, "document": show(&c.doc), "what": c.what, "expected": format!("{:?}", c.expected)}));
        }
    }
    report.traces = report.evaluations;
}

pub fn replay(v: &mc_core::Value) -> (bool, String) {
    let name = v["subject"].as_str().unwrap();
    let subject = subjects::by_name(name);
    let kind = name.split('<').next().unwrap();
    let lit = lit_of(name);
    let flag = name.ends_with("=true");
    let input = unhex(v["input_hex"].as_str().unwrap());
    let spec = Spec::from_json(&v["spec"]);
    let mut text = format!("{name} on {:?} [{}]\n", show(&input), spec.describe());
    match run_typed(subject.as_ref(), &input, &spec) {
        Err(end) => {
            text.push_str(&format!("  rejected: {}\n", end.short()));
            (false, text)
        }
        Ok(got) => {
            text.push_str(&format!("  accepted: {got:?}\n"));
            let lexed = lex(kind, &input);
            text.push_str(&format!("  independent reading: {lexed:?}\n"));
            let mut bad = false;
            if kind != "log" {
                if let Some(l) = lexed {
                    if let Some((k, why)) = judge(kind, &lit, flag, &got, &l) {
                        bad = true;
                        text.push_str(&format!("  {k}: {why}\n"));
                    }
                } else if let Err(e) = check_limits(kind, &lit, flag, &got) {
                    bad = true;
                    text.push_str(&format!("  limit-violated: {e}\n"));
                }
            } else {
                let maxd = crate::typed::max_dimacs(&lit);
                for (_, lits) in &got.clauses {
                    for l in lits {
                        if !mc_core::bigdec::le(l.trim_start_matches('-'), &maxd) {
                            bad = true;
                        }
                    }
                }
                // numbers exact: compare with the text's own tokens on v lines
                let text_s = String::from_utf8_lossy(&input).to_string();
                let toks: Vec<String> = text_s.lines().filter(|l| l.starts_with("v ")).flat_map(|l| l[2..].split_whitespace().map(|s| s.to_string()).collect::<Vec<_>>()).filter(|t| !mc_core::bigdec::eq(t, "0")).collect();
                let got_l: Vec<String> = got.clauses.iter().flat_map(|c| c.1.clone()).collect();
                if toks.len() != got_l.len() || toks.iter().zip(got_l.iter()).any(|(a, b)| !mc_core::bigdec::eq(a, b)) {
                    bad = true;
                    text.push_str(&format!("  value-mismatch: text says {toks:?}, returned {got_l:?}\n"));
                }
            }
            (bad, text)
        }
    }
}

pub const RULE: &str = "(a) documents rendered from abstract values: each number position (literal with declared variable count 0/5, headerless literal, variable count, clause count, weight, top weight, group, group count, log literal) takes every boundary value {0,1,2,9,10^k-1,10^k (k=7,8,9), 2^w-1,2^w,2^w+1 (w=7,8,15,16,31,32,63,64), type limits +-1, 20- and 40-digit numbers}, negated where a sign is allowed, with 0/1/7/8 leading zeros; x literal types x ignore_header x {one-shot, byte-wise}; accept => returned numbers equal the decimal text (big decimals) and every declared / type limit is respected. (b) every accepted document of the C01 families is re-read by an independent lexical reader and compared. Non-trivial = accepted documents";

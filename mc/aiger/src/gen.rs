//! Small-scope document generators for AIGER (ASCII and binary).

use mc_core::generic::{byte_sweep, comment_byte_docs, dedup_docs, digit_byte_docs, single_edit_neighbours, token_sequences, Doc, MARKERS};
use mc_core::Tier;

pub fn corpus(format: &str) -> Vec<Doc> {
    let d = |n: &str, b: &[u8]| Doc::new(format!("{format}:{n}"), b.to_vec());
    match format {
        "aag" => vec![
            d("empty", b"aag 0 0 0 0 0\n"),
            d("and", b"aag 3 2 0 1 1\n2\n4\n6\n6 2 4\n"),
            d("latches", b"aag 5 1 3 2 1\n2\n4 10\n6 3 1\n8 2 8\n10\n7\n10 4 6\n"),
            d("all-sections", b"aag 3 1 1 0 1 1 1 1 1\n2\n4 6\n3\n5\n2\n6\n7\n2\n6 2 4\n"),
            d("six-fields", b"aag 1 1 0 0 0 1\n2\n3\n"),
            d("symbols-comment", b"aag 1 1 0 1 0\n2\n2\ni0 input name\no0 out \xc3\xa9\xe2\x9c\x93\nc\nmulti\nline comment\n"),
            d("empty-comment", b"aag 1 1 0 1 0\n2\n3\nc\n"),
            d("big-numbers", b"aag 50000000 1 0 1 1\n2\n100000000\n100000000 2 12345678\n"),
            d("symbols-all", b"aag 2 1 1 1 0 1 1 1 1\n2\n4 2 4\n4\n2\n3\n1\n4\n5\ni0 a\nl0 b\no0 c\nb0 d\nc0 e\nj0 f\nf0 g\nc\nx\n"),
            d("justice-two", b"aag 2 2 0 0 0 0 0 2 0\n2\n4\n2\n0\n2\n4\n"),
            d("bad-symbol-no-latch", b"aag 1 1 0 0 0 1\n2\n3\nb0 bad\n"),
            d("justice-gaps", b"aag 1 1 0 0 0 0 0 4 0\n2\n0\n2\n0\n1\n2\n3\n0\nj3 last\n"),
            d("fair-symbols", b"aag 1 1 0 0 0 0 0 0 2\n2\n2\n3\nf1 second\nf0 first\n"),
            d("more-bad-than-vars", b"aag 1 1 0 0 0 3\n2\n2\n3\n0\n"),
            d("cycle-second-input", b"aag 4 2 0 1 2\n2\n4\n6\n6 2 8\n8 4 6\n"),
            d("negated-cycle", b"aag 4 2 0 1 2\n2\n4\n7\n6 9 2\n8 7 4\n"),
            d("duplicate-gates", b"aag 4 2 0 2 2\n2\n4\n6\n8\n6 2 4\n8 2 4\n"),
            d("undefined-literal", b"aag 5 2 0 1 1\n2\n4\n6\n6 2 10\n"),
            d("and-then-symbols", b"aag 3 2 0 1 1\n2\n4\n6\n6 2 4\ni0 a\no0 out\nc\ncomment\n"),
            d("utf8-comment", b"aag 1 1 0 1 0\n2\n2\nc\nh\xc3\xa9llo \xe2\x9c\x93 \xf0\x9f\x98\x80\n\xc3\xa9\n"),
        ],
        "aig" => vec![
            d("empty", b"aig 0 0 0 0 0\n"),
            d("and", b"aig 3 2 0 1 1\n6\n\x02\x02"),
            d("latches", b"aig 5 1 3 2 1\n10\n3 1\n2 8\n10\n7\n\x04\x02"),
            d("symbols-comment", b"aig 1 1 0 1 0\n2\ni0 x\no0 y \xc3\xa9\nc\nhello\nworld\n"),
            d("two-byte-delta", b"aig 101 100 0 1 1\n202\n\x02\xc6\x01"),
            d("all-sections", b"aig 3 1 1 0 1 1 1 1 1\n6\n3\n5\n2\n6\n7\n2\n\x02\x02"),
            d("three-gates", b"aig 5 2 0 2 3\n10\n7\n\x02\x02\x02\x04\x02\x02i0 a\ni1 b\no1 z\n"),
            d("lf-in-binary", b"aig 12 11 0 1 1\n24\n\x02\x0a"),
            d("bad-symbol-no-latch", b"aig 1 1 0 0 0 1\n3\nb0 bad\n"),
            d("justice-gaps", b"aig 1 1 0 0 0 0 0 4 0\n0\n2\n0\n1\n2\n3\n0\nj3 last\n"),
            d("two-byte-delta-then-more", b"aig 102 100 0 1 2\n204\n\x02\xc6\x01\x02\x02o0 out\nc\nx\n"),
            d("constraint-symbols", b"aig 1 1 0 0 0 0 2\n2\n3\nc1 second\nc0 first\nc\ncomment\n"),
            d("duplicate-gates", b"aig 4 2 0 2 2\n6\n8\n\x02\x02\x04\x02"),
            d("utf8-comment", b"aig 1 1 0 1 0\n2\nc\nh\xc3\xa9llo \xe2\x9c\x93 \xf0\x9f\x98\x80\n\xc3\xa9\n"),
        ],
        _ => vec![],
    }
}

pub fn tokens(format: &str) -> Vec<&'static [u8]> {
    let mut t: Vec<&'static [u8]> = vec![
        b" ", b"\n", b"0", b"1", b"2", b"3", b"4", b"00", b"12345678", b"4294967295", b"18446744073709551615", b"18446744073709551616", b"i0 ", b"o0 ", b"l0 ", b"b0 ", b"c", b"c0 ", b"j0 ", b"f0 ", b"x", b"\xff", b"\r",
    ];
    match format {
        "aag" => t.extend([&b"aag"[..], b"aag 1 1 0 0 0\n", b"aag 1 0 1 1 0\n", b"aag 1 1 0 1 0 1 0 0 1\n", b"aag 2 1 0 0 1\n"]),
        "aig" => t.extend([&b"aig"[..], b"aig 1 1 0 0 0\n", b"aig 1 0 1 1 0\n", b"aig 2 1 0 1 1\n", b"aig 1 1 0 1 0 1 0 0 1\n", b"\x80", b"\x81\x00", b"\xff\xff\xff\xff\xff\xff\xff\xff\xff\x01", b"\xff\xff\xff\xff\xff\xff\xff\xff\xff\xff\x01"]),
        _ => {}
    }
    t
}

/// Well-formed circuits of about 50 KiB (more than three default chunks): many inputs, a chain of
/// and gates, symbols for the inputs and a multi-line comment.
pub fn long_docs(format: &str) -> Vec<Doc> {
    let inputs = 1500usize;
    let gates = 3000usize;
    let m = inputs + gates;
    let mut d = Vec::new();
    if format == "aag" {
        d.extend_from_slice(format!("aag {m} {inputs} 0 2 {gates}\n").as_bytes());
        for i in 1..=inputs {
            d.extend_from_slice(format!("{}\n", 2 * i).as_bytes());
        }
        d.extend_from_slice(format!("{}\n{}\n", 2 * m, 2 * m + 1).as_bytes());
        for g in 1..=gates {
            let lhs = 2 * (inputs + g);
            let a = lhs - 2;
            let b = 2 * (g % inputs + 1) + (g % 2);
            let (x, y) = if a >= b { (a, b) } else { (b, a) };
            d.extend_from_slice(format!("{lhs} {x} {y}\n").as_bytes());
        }
    } else {
        d.extend_from_slice(format!("aig {m} {inputs} 0 2 {gates}\n").as_bytes());
        d.extend_from_slice(format!("{}\n{}\n", 2 * m, 2 * m + 1).as_bytes());
        let push_varint = |d: &mut Vec<u8>, mut v: usize| {
            while v >= 0x80 {
                d.push((v & 0x7f) as u8 | 0x80);
                v >>= 7;
            }
            d.push(v as u8);
        };
        for g in 1..=gates {
            let lhs = 2 * (inputs + g);
            let a = lhs - 2;
            let b = 2 * (g % inputs + 1) + (g % 2);
            let (x, y) = if a >= b { (a, b) } else { (b, a) };
            push_varint(&mut d, lhs - x);
            push_varint(&mut d, x - y);
        }
    }
    for i in 0..inputs {
        d.extend_from_slice(format!("i{i} input number {i} {}\n", "n".repeat(i % 23)).as_bytes());
    }
    d.extend_from_slice(b"o1 second output\nc\n");
    for i in 0..200 {
        d.extend_from_slice(format!("comment line {i} {}\n", "c".repeat(i % 37)).as_bytes());
    }
    let mut bad = d.clone();
    let k = bad.len() * 2 / 3;
    bad[k] = 0xff;
    // one very long symbol name and one very long comment line, each followed by more
    let head: &[u8] = if format == "aag" { b"aag 1 1 0 1 0\n2\n2\n" } else { b"aig 1 1 0 1 0\n2\n" };
    let mut long_name = head.to_vec();
    long_name.extend_from_slice(b"i0 ");
    long_name.extend(std::iter::repeat(b'n').take(100_000));
    long_name.extend_from_slice(b"\no0 out\nc\nshort comment\n");
    let mut long_comment = head.to_vec();
    long_comment.extend_from_slice(b"i0 in\nc\n");
    long_comment.extend(std::iter::repeat(b'c').take(100_000));
    long_comment.extend_from_slice(b"\nlast line\n");
    vec![Doc::new(format!("^{format}:long"), d), Doc::new(format!("^{format}:long-corrupted"), bad), Doc::new(format!("^{format}:long-symbol-name"), long_name), Doc::new(format!("^{format}:long-comment-line"), long_comment)]
}

/// Symbol table lines against every combination of empty / non-empty sections: for each of the 128
/// combinations of the seven section counts in {0, 1} a minimal consistent circuit, followed by one
/// symbol line of every kind with index 0 and 1 (a symbol for an empty section, or with an index
/// equal to the count, must be rejected - without tripping over `count - 1`).
pub fn symbol_table_docs(format: &str) -> Vec<Doc> {
    let mut out = Vec::new();
    for bits in 0..128u32 {
        let c = |k: u32| (bits >> k) & 1;
        let (i, l, o, b, cc, j, f) = (c(0), c(1), c(2), c(3), c(4), c(5), c(6));
        let m = i + l;
        let mut d = format!("{format} {m} {i} {l} {o} 0 {b} {cc} {j} {f}\n").into_bytes();
        if i == 1 && format == "aag" {
            d.extend_from_slice(b"2\n");
        }
        if l == 1 {
            if format == "aag" {
                d.extend_from_slice(format!("{} 0\n", 2 * (i + 1)).as_bytes());
            } else {
                d.extend_from_slice(b"0\n");
            }
        }
        for _ in 0..(o + b + cc) {
            d.extend_from_slice(b"0\n");
        }
        if j == 1 {
            d.extend_from_slice(b"1\n0\n");
        }
        if f == 1 {
            d.extend_from_slice(b"0\n");
        }
        for kind in ["i", "l", "o", "b", "c", "j", "f"] {
            for idx in 0..2 {
                let mut t = d.clone();
                t.extend_from_slice(format!("{kind}{idx} name\n").as_bytes());
                out.push(Doc::new(format!("~{format}|symbols-{bits}-{kind}{idx}"), t));
            }
        }
    }
    out
}

pub struct Inputs {
    pub corpus: Vec<Doc>,
    pub neighbours: Vec<Doc>,
    pub sequences: Vec<Doc>,
}

pub fn inputs(format: &str, tier: Tier) -> Inputs {
    inputs_seq(format, tier, 3)
}

pub fn inputs_seq(format: &str, tier: Tier, seq_len: usize) -> Inputs {
    let corpus = dedup_docs(corpus(format));
    let mut nb = Vec::new();
    for d in &corpus {
        if tier == Tier::Quick && d.bytes.len() > 60 {
            continue;
        }
        nb.extend(single_edit_neighbours(d, &MARKERS));
    }
    // every byte value at every position of the short corpus documents
    for d in &corpus {
        let base = d.name.rsplit(':').next().unwrap_or("");
        let quick_base = matches!(base, "std" | "assignment-first" | "and" | "tiny");
        if (tier == Tier::Quick && quick_base) || (tier == Tier::Thorough && (8..=60).contains(&d.bytes.len())) {
            nb.extend(byte_sweep(d));
        }
    }
    // number tokens followed by every byte value (output literal position, large M)
    if format == "aag" {
        nb.extend(digit_byte_docs("aag", b"aag 999999999 1 0 1 0\n2\n", b"\n", false));
    } else {
        nb.extend(digit_byte_docs("aig", b"aig 999999999 1 0 1 0\n", b"\n", false));
    }
    // comment / symbol text with every byte value in every lane
    if format == "aag" {
        nb.extend(comment_byte_docs("aag", b"aag 1 1 0 1 0\n2\n2\nc\n", b"last line\n"));
        nb.extend(comment_byte_docs("aag-symbol", b"aag 1 1 0 1 0\n2\n2\ni0 ", b"c\n"));
    } else {
        nb.extend(comment_byte_docs("aig", b"aig 1 1 0 1 0\n2\nc\n", b"last line\n"));
        // and-gate deltas of 2..=11 groups whose last group carries bits beyond the 64th, followed by
        // enough data to have the whole encoding buffered
        for n in 2..=11usize {
            for last in [0x00u8, 0x01, 0x02, 0x03, 0x40, 0x7f] {
                for first in [0x80u8, 0x82, 0x86] {
                    let mut d = b"aig 3 2 0 1 1\n6\n".to_vec();
                    d.push(first);
                    d.extend(std::iter::repeat(0x80u8).take(n - 2));
                    d.push(last);
                    d.push(0x02);
                    d.extend_from_slice(b"i0 abcdefghijkl\nc\nx\n");
                    nb.push(Doc::new(format!("aig|delta-groups{n}-last{last:#04x}-first{first:#04x}"), d));
                }
            }
        }
    }
    nb.extend(long_docs(format));
    nb.extend(symbol_table_docs(format));
    let sequences = dedup_docs(token_sequences(&tokens(format), seq_len));
    // all short strings over a 10-symbol alphabet (arbitrary inputs)
    let mut sequences = sequences;
    sequences.extend(mc_core::generic::all_strings(b"aig012 \nc\x80", tier.pick(4, 6)));
    let sequences = dedup_docs(sequences);
    Inputs { corpus, neighbours: dedup_docs(nb), sequences }
}

impl Inputs {
    pub fn all(&self) -> Vec<Doc> {
        let mut v = self.corpus.clone();
        v.extend(self.neighbours.iter().cloned());
        v.extend(self.sequences.iter().cloned());
        dedup_docs(v)
    }
}

/// C05 family (d): headers whose nine counts take extreme values (at most two non-small fields),
/// followed by a little body: this is where `count - 1`, `(I + 1) * 2` and `reserve(count)` live.
pub fn header_docs(format: &str) -> Vec<Doc> {
    let small = ["0", "1", "2"];
    let big = ["127", "128", "32767", "2147483647", "4294967295", "4294967296", "9223372036854775806", "9223372036854775807", "9223372036854775808", "18446744073709551614", "18446744073709551615", "18446744073709551616"];
    let bodies: [&[u8]; 5] = [b"", b"2\n", b"0\n", b"2\n3\n0\n", b"2 3\n1\ni0 x\nb0 y\nc\n"];
    let mut out = Vec::new();
    let mut push = |fields: &Vec<&str>| {
        for n in [5usize, 6, 9] {
            for body in bodies {
                let mut v = format.as_bytes().to_vec();
                for f in &fields[..n] {
                    v.push(b' ');
                    v.extend_from_slice(f.as_bytes());
                }
                v.push(b'\n');
                v.extend_from_slice(body);
                out.push(Doc::new("header", v));
            }
        }
    };
    for i in 0..9 {
        for b1 in big {
            for s in small {
                let mut f: Vec<&str> = vec![s; 9];
                f[0] = "9223372036854775807";
                f[i] = b1;
                push(&f);
                f[0] = "3";
                f[i] = b1;
                push(&f);
            }
            // one extreme field, one small field, all others zero (M maximal)
            for j in 1..9 {
                if j != i {
                    for s in ["1", "2"] {
                        let mut f: Vec<&str> = vec!["0"; 9];
                        f[0] = "9223372036854775807";
                        f[i] = b1;
                        f[j] = s;
                        if i == 0 {
                            f[0] = b1;
                        }
                        push(&f);
                    }
                }
            }
            for j in (i + 1)..9 {
                for b2 in [big[4], big[6], big[9]] {
                    let mut f: Vec<&str> = vec!["1"; 9];
                    f[i] = b1;
                    f[j] = b2;
                    push(&f);
                }
            }
        }
    }
    // two (or three) extreme counts whose SUM wraps around, with the largest possible M: a limit check
    // that adds the counts up must not wrap
    let wrap = ["9223372036854775807", "9223372036854775808", "9223372036854775809", "18446744073709551614", "18446744073709551615", "6148914691236517206", "12297829382473034411"];
    for i in 1..5 {
        for j in (i + 1)..5 {
            for b1 in wrap {
                for b2 in wrap {
                    for third in ["0", "1", "2"] {
                        let mut f: Vec<&str> = vec!["0"; 9];
                        f[0] = "9223372036854775807";
                        f[i] = b1;
                        f[j] = b2;
                        let k = (1..5).find(|k| *k != i && *k != j && *k != 3).unwrap_or(3);
                        f[k] = third;
                        push(&f);
                    }
                }
            }
        }
    }
    for t in ["6148914691236517206", "6148914691236517205", "12297829382473034411"] {
        let mut f: Vec<&str> = vec!["0"; 9];
        f[0] = "9223372036854775807";
        f[1] = t;
        f[2] = t;
        f[4] = t;
        push(&f);
    }
    // sparse numbering (ascii only: binary inputs are implicit): tiny circuits that use one huge
    // variable index - nothing may be sized by the largest index (e.g. a table indexed by variable)
    if format == "aag" {
        for m in ["1000000", "20000000", "2147483647", "1099511627776", "4611686018427387903"] {
            let big: u128 = m.parse().unwrap();
            let lit = 2 * big;
            out.push(Doc::new("sparse", format!("aag {m} 1 0 1 0\n{lit}\n{lit}\n").into_bytes()));
            out.push(Doc::new("sparse", format!("aag {m} 1 0 1 1\n2\n{}\n{lit} 2 3\n", lit + 1).into_bytes()));
            out.push(Doc::new("sparse", format!("aag {m} 1 1 1 1\n2\n{} {lit} 1\n{}\n{lit} 2 {}\n", lit - 2, lit - 1, lit - 2).into_bytes()));
        }
    }
    // justice property sizes: their sum is a count the input merely declares
    let sizes = ["0", "1", "2", "3", "9223372036854775808", "18446744073709551614", "18446744073709551615", "18446744073709551616"];
    let pre: &[u8] = if format == "aag" { b"2\n" } else { b"" };
    for s1 in sizes {
        for s2 in sizes {
            for s3 in ["", "2"] {
                let n = if s3.is_empty() { 2 } else { 3 };
                let mut v = format!("{format} 1 1 0 0 0 0 0 {n} 0\n").into_bytes();
                v.extend_from_slice(pre);
                v.extend_from_slice(format!("{s1}\n{s2}\n").as_bytes());
                if !s3.is_empty() {
                    v.extend_from_slice(format!("{s3}\n").as_bytes());
                }
                v.extend_from_slice(b"3\n2\n3\n");
                out.push(Doc::new("justice-sizes", v));
            }
        }
    }
    dedup_docs(out)
}

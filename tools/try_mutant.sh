#!/bin/bash
# usage: tools/try_mutant.sh <file-in-repo> <old> <new> <prop>...   (applies a literal replacement, runs baseline tests + checks, reverts)
f=$1; old=$2; new=$3; shift 3
python3 - "$f" "$old" "$new" <<'PY'
import sys
p='/repo/'+sys.argv[1]; s=open(p).read()
assert sys.argv[2] in s, "pattern not found"
open(p,'w').write(s.replace(sys.argv[2],sys.argv[3],1))
PY
[ $? -eq 0 ] || exit 3
(cd /repo && cargo test --workspace --offline 2>&1 | grep -E "^test result|error" | awk '/error/ {print} /test result/ {p+=$4; f+=$6} END {print "baseline tests: passed",p,"failed",f}')
for p in "$@"; do (cd /verif && ./check $p quick | grep -E "^(VIOLATION|  key|C[0-9]+ quick|MACHINERY|KNOWN)" | cut -c1-260 | head -8); done
git -C /repo checkout -- .
git -C /verif checkout -- evidence 2>/dev/null

#!/bin/bash
# Development aid (not used by any registered check): mirror the working tree of /verif to
# /tmp/xverif with the path dependencies pointing at the scratch worktree /tmp/xrepo, so that
# seeded changes can be applied and judged without touching /repo while a long run builds from it.
#   tools/private_copy.sh sync                 refresh /tmp/xverif (keeps its build output)
#   tools/private_copy.sh seed <seed> <PROP..> apply seeded/<seed>/patch.diff to /tmp/xrepo, run the quick checks, undo
set -u
# PC=y selects a second, independent copy (/tmp/yverif + /tmp/yrepo), e.g. while matrix.sh uses the first
PC=${PC:-x}
X=/tmp/${PC}verif
R=/tmp/${PC}repo
case "${1:-}" in
sync)
  [ -d $R ] || git -C /repo worktree add --detach $R HEAD >/dev/null
  git -C $R checkout -q -- . && git -C $R checkout -q --detach "$(git -C /repo rev-parse HEAD)"
  mkdir -p $X
  rsync -a --delete --exclude .git --exclude 'mc/target' --exclude 'mc-miri/target' --exclude scratch --exclude replays --exclude evidence /verif/ $X/
  mkdir -p $X/evidence
  sed -i "s#\"/repo/#\"$R/#" $X/mc/*/Cargo.toml
  ;;
seed)
  s=$2; shift 2
  git -C $R checkout -q -- .
  git -C $R apply /verif/seeded/$s/patch.diff || { echo "$s APPLY-FAIL"; exit 3; }
  cd $X
  for p in "$@"; do
    ./check $p quick > $X/out-$s-$p.txt 2>&1; rc=$?
    echo "$s $p rc=$rc $(grep -c '^VIOLATION' $X/out-$s-$p.txt) violation line(s): $(grep -m3 'key=' $X/out-$s-$p.txt | tr -s ' ' | tr '\n' ';' | cut -c1-200)"
  done
  git -C $R checkout -q -- .
  ;;
mutant)
  # mutant <file relative to the repo> <old> <new> <PROP...>: literal replacement, baseline suite, quick checks, undo
  f=$2; old=$3; new=$4; shift 4
  git -C $R checkout -q -- .
  python3 - "$R/$f" "$old" "$new" <<'PY' || exit 3
import sys
p,old,new=sys.argv[1:4]
s=open(p).read()
if s.count(old)!=1: sys.exit(f"pattern occurs {s.count(old)} times in {p}")
open(p,'w').write(s.replace(old,new))
PY
  (cd $R && cargo test --workspace --offline 2>&1 | grep -E "^test result|^error" | awk '/^error/ {print} /test result/ {p+=$4; f+=$6} END {print "baseline tests: passed",p,"failed",f}')
  cd $X
  for p in "$@"; do
    ./check $p quick > $X/out-mutant-$p.txt 2>&1; rc=$?
    echo "mutant $p rc=$rc $(grep -c '^VIOLATION' $X/out-mutant-$p.txt) violation line(s): $(grep -m3 'key=' $X/out-mutant-$p.txt | tr -s ' ' | tr '\n' ';' | cut -c1-300)"
  done
  git -C $R checkout -q -- .
  ;;
*) echo "usage: $0 sync | seed <seed> <PROP...>"; exit 2;;
esac

//! C13 — decimal scanning is exact for every integer width; fast equals simple.
//!
//! E-enum. Four families, each enumerated completely:
//!  K1  every digit string of length 0..=L (L = 6 quick / 8 thorough) x representative terminator x
//!      filler, scanned by the `_multi` variants with >= 8 bytes buffered (SWAR kernel), unsigned and
//!      behind a '-' sign; many records per reader (an arena), so a case costs nanoseconds;
//!  K2  per lane 0..8: digit prefix, all 256 byte values at that lane, 3 fillers;
//!  W   per integer type: boundary values (0, 1, 9, 10^k-1, 10^k, MAX-2..MAX+2, MIN-2..MIN+2, 2*MAX,
//!      10*MAX+d) x leading zeros x sign x terminator x offset x **every** buffered amount (which
//!      selects fast or cold path and where the refill happens) x {rest at once, rest byte-wise};
//!  S   all strings of length <= 5 over {'-','0','1','9','x'} for every type, offset and buffering.
//! Oracle: an independent reference (digit run by a plain loop; value by checked u128 arithmetic,
//! "huge" beyond that; representability from the type's bit width) gives the expected offset and
//! `Some(exact)` / `None`; `_multi` must equal the simple variant; the reader's cursor and buffered
//! prefix are unchanged.

use flussab::{text, DeferredReader};
use mc_core::report::Report;
use mc_core::source::{Ans, Grain, ScriptedSource, SourceCfg};
use mc_core::subject::{catch, short_loc};
use mc_core::{hex, json, show, unhex, Budget, Tier, Value};
use num_traits::ops::overflowing::{OverflowingAdd, OverflowingMul, OverflowingSub};
use num_traits::{FromPrimitive, Zero};

pub trait ScanInt: Zero + FromPrimitive + OverflowingAdd + OverflowingMul + OverflowingSub + Copy + std::fmt::Debug + 'static {
    const BITS: u32;
    const SIGNED: bool;
    const NAME: &'static str;
    /// (is negative, magnitude)
    fn parts(self) -> (bool, u128);
}

macro_rules! scan_int {
    ($($t:ty, $signed:expr);*) => {$(
        impl ScanInt for $t {
            const BITS: u32 = <$t>::BITS;
            const SIGNED: bool = $signed;
            const NAME: &'static str = stringify!($t);
            #[allow(unused_comparisons)]
            fn parts(self) -> (bool, u128) {
                if self < 0 { (true, (self as i128).unsigned_abs()) } else { (false, self as u128) }
            }
        }
    )*};
}
scan_int!(i8, true; i16, true; i32, true; i64, true; isize, true; u8, false; u16, false; u32, false; u64, false; usize, false);

impl ScanInt for i128 {
    const BITS: u32 = 128;
    const SIGNED: bool = true;
    const NAME: &'static str = "i128";
    fn parts(self) -> (bool, u128) {
        (self < 0, self.unsigned_abs())
    }
}
impl ScanInt for u128 {
    const BITS: u32 = 128;
    const SIGNED: bool = false;
    const NAME: &'static str = "u128";
    fn parts(self) -> (bool, u128) {
        (false, self)
    }
}

#[derive(Clone, Copy, Debug, PartialEq, Eq)]
pub enum Scanner {
    Digits,
    SignedDigits,
    DigitsMulti,
    SignedDigitsMulti,
}

impl Scanner {
    pub const ALL: [Scanner; 4] = [Scanner::Digits, Scanner::SignedDigits, Scanner::DigitsMulti, Scanner::SignedDigitsMulti];
    fn signed(self) -> bool {
        matches!(self, Scanner::SignedDigits | Scanner::SignedDigitsMulti)
    }
    fn name(self) -> &'static str {
        match self {
            Scanner::Digits => "ascii_digits",
            Scanner::SignedDigits => "signed_ascii_digits",
            Scanner::DigitsMulti => "ascii_digits_multi",
            Scanner::SignedDigitsMulti => "signed_ascii_digits_multi",
        }
    }
    fn from_name(s: &str) -> Scanner {
        *Scanner::ALL.iter().find(|x| x.name() == s).unwrap()
    }
    fn call<I: ScanInt>(self, r: &mut DeferredReader, offset: usize) -> (Option<I>, usize) {
        match self {
            Scanner::Digits => text::ascii_digits::<I>(r, offset),
            Scanner::SignedDigits => text::signed_ascii_digits::<I>(r, offset),
            Scanner::DigitsMulti => text::ascii_digits_multi::<I>(r, offset),
            Scanner::SignedDigitsMulti => text::signed_ascii_digits_multi::<I>(r, offset),
        }
    }
}

/// Reference magnitude: exact up to u128, otherwise "huge" (not representable anywhere).
#[derive(Clone, Copy, Debug, PartialEq, Eq)]
pub enum Mag {
    Exact(u128),
    Huge,
}

/// Independent reference: (negative, magnitude, end offset).
pub fn ref_scan(s: &[u8], offset: usize, signed: bool) -> (bool, Mag, usize) {
    let at = |i: usize| s.get(i).copied();
    let (neg, start) = if signed && at(offset) == Some(b'-') && at(offset + 1).map_or(false, |b| b.is_ascii_digit()) {
        (true, offset + 1)
    } else {
        (false, offset)
    };
    let mut end = start;
    let mut mag = Mag::Exact(0);
    while let Some(b) = at(end) {
        if !b.is_ascii_digit() {
            break;
        }
        mag = match mag {
            Mag::Exact(v) => match v.checked_mul(10).and_then(|v| v.checked_add((b - b'0') as u128)) {
                Some(v) => Mag::Exact(v),
                None => Mag::Huge,
            },
            Mag::Huge => Mag::Huge,
        };
        end += 1;
    }
    if end == start {
        // no digits: nothing is passed over (a lone '-' is not consumed)
        return (false, Mag::Exact(0), offset);
    }
    (neg, mag, end)
}

/// Is (neg, mag) representable in I? Returns the expected (neg, mag) of the result if so.
pub fn representable<I: ScanInt>(neg: bool, mag: Mag) -> Option<(bool, u128)> {
    let m = match mag {
        Mag::Exact(m) => m,
        Mag::Huge => return None,
    };
    if m == 0 {
        return Some((false, 0));
    }
    let pos_max: u128 = if I::SIGNED {
        (1u128 << (I::BITS - 1)) - 1
    } else if I::BITS == 128 {
        u128::MAX
    } else {
        (1u128 << I::BITS) - 1
    };
    let neg_max: u128 = if I::SIGNED { 1u128 << (I::BITS - 1) } else { 0 };
    if neg {
        (m <= neg_max).then_some((true, m))
    } else {
        (m <= pos_max).then_some((false, m))
    }
}

fn classify<I: ScanInt>(got: &Result<(Option<I>, usize), (String, String)>, s: &[u8], offset: usize, signed: bool) -> Option<(String, String)> {
    let (neg, mag, end) = ref_scan(s, offset, signed);
    let expect = representable::<I>(neg, mag);
    match got {
        Err((msg, loc)) => Some(("panic".into(), format!("panicked: {msg} @ {}; expected ({expect:?}, {end})", short_loc(loc)))),
        Ok((v, e)) => {
            let v = v.map(|x| x.parts());
            if *e != end {
                Some(("offset".into(), format!("returned offset {e}, the digit run ends at {end} (value {v:?}, expected {expect:?})")))
            } else if v != expect {
                let kind = match (v, expect) {
                    (Some(_), None) => "overflow-missed",
                    (None, Some(_)) => "spurious-overflow",
                    _ => "value",
                };
                Some((kind.into(), format!("returned {v:?} (sign, magnitude), the text says {}{:?} => expected {expect:?}", if neg { "-" } else { "" }, mag)))
            } else {
                None
            }
        }
    }
}

fn type_class<I: ScanInt>() -> &'static str {
    if I::SIGNED {
        "signed"
    } else {
        "unsigned"
    }
}

// ------------------------------------------------------------------ single-case execution (W, S)

/// One scanner call on a fresh reader: `buffered` bytes are in the buffer when the scanner is
/// called; the rest arrives at once or byte-wise.
pub fn run_case<I: ScanInt>(s: &[u8], offset: usize, scanner: Scanner, buffered: usize, rest_bytewise: bool) -> Vec<(String, String)> {
    run_case_in::<I>(s, offset, scanner, buffered, rest_bytewise, false)
}

/// Number of stale bytes in front of the text in the `stale` variant (three chunks of 8).
const STALE_PREFIX: usize = 24;

/// `stale`: the text is preceded by 24 digits '9' that are consumed chunk by chunk (chunk size 8)
/// so that the refill delivering the first `buffered` bytes of the text realigns the buffer: the
/// bytes right behind the valid window are then stale digits, not zeros. A scanner that loads
/// beyond the buffered data (C14) returns a value that depends on them.
pub fn run_case_in<I: ScanInt>(s: &[u8], offset: usize, scanner: Scanner, buffered: usize, rest_bytewise: bool, stale: bool) -> Vec<(String, String)> {
    run_case_full::<I>(s, offset, scanner, buffered, rest_bytewise, stale, false)
}

/// `complete`: the whole text is buffered and the reader has seen the end of the input before the
/// scanner is called.
pub fn run_case_full<I: ScanInt>(s: &[u8], offset: usize, scanner: Scanner, buffered: usize, rest_bytewise: bool, stale: bool, complete: bool) -> Vec<(String, String)> {
    let describe = || (format!("digits/{}/{}", scanner.name(), type_class::<I>()), format!("{}::<{}>({:?}, offset {offset}) with {buffered} bytes buffered{}{}", scanner.name(), I::NAME, show(s), if stale { " (stale digits behind the window)" } else { "" }, if complete { " (end of input already seen)" } else { "" }), { let mut v = replay_value::<I>(s, offset, scanner, buffered, rest_bytewise, stale); v["complete"] = json!(complete); v });
    let _guard = mc_core::abortguard::enter(&describe);
    let mut problems = Vec::new();
    let b = buffered.min(s.len());
    let mut script = vec![];
    if stale {
        script.extend([Ans::Deliver(8), Ans::Deliver(8), Ans::Deliver(8)]);
    }
    if b > 0 {
        script.push(Ans::Deliver(b));
    }
    if rest_bytewise {
        script.extend(std::iter::repeat(Ans::Deliver(1)).take(s.len() + 2));
    }
    let grain = if script.is_empty() { Grain::OneShot } else { Grain::Script(script) };
    let mut stream = Vec::new();
    if stale {
        stream.extend_from_slice(&[b'9'; STALE_PREFIX]);
    }
    stream.extend_from_slice(s);
    let base = if stale { STALE_PREFIX } else { 0 };
    // in the stale variant the source also scribbles digits behind what it delivers
    let (source, st) = ScriptedSource::new(SourceCfg::new(&stream, grain).scribble(if stale { Some(b'9') } else { None }), vec![]);
    let res = catch(|| {
        let mut reader = DeferredReader::from_read(source);
        if stale {
            reader.set_chunk_size(8);
            for _ in 0..3 {
                reader.request(8);
                reader.advance(8);
            }
            if b > 0 {
                reader.request_more();
            }
        } else if b > 0 {
            reader.request(b);
        }
        if complete {
            reader.request(s.len() + 1);
        }
        let pre = reader.buf_len();
        let r = scanner.call::<I>(&mut reader, offset);
        (r, pre, reader.position(), reader.buf().to_vec())
    });
    let got = match res {
        Ok((r, pre, position, buf)) => {
            if pre != b && !complete {
                problems.push(("harness".into(), format!("harness could not buffer exactly {b} bytes (got {pre})")));
            }
            if position != base {
                problems.push(("consumed".into(), format!("scanner moved the cursor to {position}")));
            }
            let pos = st.borrow().pos;
            if buf[..] != stream[base..pos] {
                problems.push(("buffer".into(), format!("buffered data {:?} is not the delivered prefix", show(&buf))));
            }
            Ok(r)
        }
        Err(e) => Err(e),
    };
    if let Some(p) = classify::<I>(&got, s, offset, scanner.signed()) {
        problems.push(p);
    }
    problems
}

fn replay_value<I: ScanInt>(s: &[u8], offset: usize, scanner: Scanner, buffered: usize, rest_bytewise: bool, stale: bool) -> Value {
    json!({
        "property": "C13", "family": "case", "type": I::NAME, "scanner": scanner.name(), "input_hex": hex(s), "input": show(s),
        "offset": offset, "buffered": buffered, "rest_bytewise": rest_bytewise, "stale": stale,
    })
}

fn check_case<I: ScanInt>(s: &[u8], offset: usize, buffered: usize, rest_bytewise: bool, family: &str, report: &mut Report) {
    let mut results: Vec<Vec<(String, String)>> = Vec::new();
    for scanner in Scanner::ALL {
        let problems = run_case::<I>(s, offset, scanner, buffered, rest_bytewise);
        report.evaluations += 1;
        report.transitions += 1;
        for (kind, what) in &problems {
            report.violation(
                format!("digits/{}/{}/{}", scanner.name(), type_class::<I>(), kind),
                format!("{}::<{}>({:?}, offset {offset}) with {buffered} bytes buffered, rest {}: {what}", scanner.name(), I::NAME, show(s), if rest_bytewise { "byte-wise" } else { "at once" }),
                replay_value::<I>(s, offset, scanner, buffered, rest_bytewise, false),
                (s.len() * 64 + buffered) as u64,
            );
        }
        // the same text on a reader that has already seen the end of the input
        if buffered >= s.len() && !rest_bytewise {
            let done = run_case_full::<I>(s, offset, scanner, buffered, false, false, true);
            report.evaluations += 1;
            report.transitions += 1;
            report.count("cases_on_a_reader_that_has_seen_the_end", 1);
            for (kind, what) in &done {
                report.violation(
                    format!("digits/{}/{}/at-end-{}", scanner.name(), type_class::<I>(), kind),
                    format!("{}::<{}>({:?}, offset {offset}) on a reader that has already seen the end of the input: {what}", scanner.name(), I::NAME, show(s)),
                    { let mut v = replay_value::<I>(s, offset, scanner, buffered, false, false); v["complete"] = json!(true); v },
                    (s.len() * 64 + buffered) as u64,
                );
            }
        }
        // the same case with stale digits right behind the buffered window (1..=8 bytes buffered:
        // the first refill of the text is a single chunk of 8)
        if (1..=8).contains(&buffered) && buffered <= s.len() {
            let stale = run_case_in::<I>(s, offset, scanner, buffered, rest_bytewise, true);
            report.evaluations += 1;
            report.transitions += 1;
            report.count("cases_with_stale_digits_behind_the_window", 1);
            for (kind, what) in &stale {
                report.violation(
                    format!("digits/{}/{}/stale-{}", scanner.name(), type_class::<I>(), kind),
                    format!("{}::<{}>({:?}, offset {offset}) with {buffered} bytes buffered and stale digits behind them, rest {}: {what}", scanner.name(), I::NAME, show(s), if rest_bytewise { "byte-wise" } else { "at once" }),
                    replay_value::<I>(s, offset, scanner, buffered, rest_bytewise, true),
                    (s.len() * 64 + buffered) as u64,
                );
            }
        }
        results.push(problems);
    }
    let (neg, mag, end) = ref_scan(s, offset, true);
    report.outcome(format!("{family}:{}:{}:{}", I::NAME, end - offset.min(end), representable::<I>(neg, mag).is_some()));
    // path split: did the fast path apply?
    if buffered >= offset + 8 {
        report.count("cases_on_fast_path", 1);
        report.nontrivial += 1;
    } else {
        report.count("cases_on_cold_path", 1);
        if buffered > offset && buffered < s.len() {
            // refill happened while a token was partially buffered
            report.nontrivial += 1;
        }
    }
}

// ------------------------------------------------------------------ W: boundary values per type

fn dec(v: u128) -> String {
    v.to_string()
}

fn boundary_values<I: ScanInt>() -> Vec<String> {
    use mc_core::bigdec::{add_small, mul_small, pow10, pow2};
    let mut v: Vec<String> = vec!["0".into(), "1".into(), "9".into(), "10".into()];
    for k in 1..=39usize {
        v.push(pow10(k));
        v.push(add_small(&pow10(k), -1));
    }
    let max = if I::SIGNED { add_small(&pow2(I::BITS - 1), -1) } else { add_small(&pow2(I::BITS), -1) };
    let min_mag = if I::SIGNED { pow2(I::BITS - 1) } else { "0".to_string() };
    for d in -2..=2i64 {
        v.push(add_small(&max, d));
        let m = add_small(&min_mag, d);
        if !m.starts_with('-') {
            v.push(m);
        }
    }
    v.push(mul_small(&max, 2));
    for d in 0..=9 {
        v.push(add_small(&mul_small(&max, 10), d));
    }
    // values around other widths (a literal that fits a wider type must not fit this one by accident)
    for w in [8u32, 16, 32, 64, 128] {
        for d in -1..=1i64 {
            v.push(add_small(&pow2(w), d));
            v.push(add_small(&pow2(w - 1), d));
        }
    }
    v.push("12345678".into());
    v.push("123456789".into());
    v.push("1234567812345678".into());
    v.push(dec(u128::MAX));
    v.push(format!("{}0", dec(u128::MAX)));
    v.sort();
    v.dedup();
    v
}

fn w_family<I: ScanInt>(tier: Tier, budget: &Budget, report: &mut Report) {
    let values = boundary_values::<I>();
    let zeros: &[usize] = tier.pick(&[0, 1, 7, 8][..], &[0, 1, 6, 7, 8, 9][..]);
    let all_terms: [&[u8]; 4] = [b"", b" ", b"-", b"x"];
    let terms: &[&[u8]] = tier.pick(&all_terms[..2], &all_terms[..]);
    let offsets: &[usize] = tier.pick(&[0, 1, 8][..], &[0, 1, 7, 8, 9][..]);
    let threads = mc_core::threads();
    let total = mc_core::par::par_fold(
        values.len(),
        threads,
        Report::new,
        |acc, i| {
            if budget.expired() {
                acc.cap(format!("W family for {} cut short by the time budget", I::NAME));
                return;
            }
            for &z in zeros {
                for sign in ["", "-"] {
                    for term in terms {
                        for &offset in offsets {
                            let mut s: Vec<u8> = vec![b'#'; offset];
                            s.extend_from_slice(sign.as_bytes());
                            s.extend(std::iter::repeat(b'0').take(z));
                            s.extend_from_slice(values[i].as_bytes());
                            s.extend_from_slice(term);
                            acc.states += 1;
                            for b in 0..=s.len() + 1 {
                                check_case::<I>(&s, offset, b, false, "W", acc);
                                if b > 0 && b < s.len() {
                                    check_case::<I>(&s, offset, b, true, "W", acc);
                                }
                            }
                        }
                    }
                }
            }
        },
        |a, b| a.merge(b),
    );
    report.merge(total);
    report.completed.push(format!("W: {} boundary values for {} x zeros {:?} x sign x {} terminators x offsets {:?} x every buffered amount x {{at once, byte-wise}} x 4 scanners", values.len(), I::NAME, zeros, terms.len(), offsets));
}

// ------------------------------------------------------------------ S: all short strings

/// Extreme start offsets: the scanners are safe functions, `offset + 8` must not wrap around into a
/// "fast path" that loads from before the buffer. Nothing is buffered at such an offset, so every
/// scanner must report an empty digit run: (Some(0), offset).
fn extreme_offsets<I: ScanInt>(report: &mut Report) {
    let texts: [&[u8]; 3] = [b"", b"12345678", b"-12345678 12345678 12345678"];
    for t in texts {
        // far beyond any input, and just behind the end of the buffered data
        let mut offsets = vec![usize::MAX, usize::MAX - 1, usize::MAX - 7, usize::MAX - 8, usize::MAX - 16, usize::MAX / 2 + 1, 1 << 40];
        for d in [1usize, 2, 7, 8, 9, 16, 17] {
            offsets.push(t.len() + d);
            offsets.push(t.len().saturating_sub(8) + d);
        }
        offsets.retain(|&o| o > t.len());
        offsets.sort();
        offsets.dedup();
        for offset in offsets {
            // (bytes advanced over, has the reader already seen the end of the input?)
            for (consumed, at_end) in [(0usize, false), (8, false), (0, true), (8, true), (3, true)] {
                for scanner in Scanner::ALL {
                    report.evaluations += 1;
                    report.transitions += 1;
                    let describe = || {
                        (
                            format!("digits/{}/extreme-offset", scanner.name()),
                            format!("{}::<{}>({:?} with {consumed} bytes advanced over, end seen {at_end}, offset {offset})", scanner.name(), I::NAME, show(t)),
                            json!({"property": "C13", "family": "extreme", "type": I::NAME, "scanner": scanner.name(), "input_hex": hex(t), "input": show(t), "offset": offset.to_string(), "consumed": consumed, "at_end": at_end}),
                        )
                    };
                    let _guard = mc_core::abortguard::enter(&describe);
                    let res = catch(|| {
                        let mut reader = DeferredReader::from_read(t);
                        reader.request(t.len() + at_end as usize);
                        let c = consumed.min(reader.buf_len());
                        reader.advance(c);
                        scanner.call::<I>(&mut reader, offset)
                    });
                    let problem = match &res {
                        Err((m, l)) => Some(("panic", format!("panicked: {m} @ {}", short_loc(l)))),
                        Ok((v, o)) if *o != offset || v.map(|x| x.parts()) != Some((false, 0)) => Some(("offset", format!("returned ({:?}, {o}); no byte is available at that offset, expected (Some(0), {offset})", v.map(|x| x.parts())))),
                        Ok(_) => None,
                    };
                    report.outcome(format!("extreme:{}", problem.is_none()));
                    if let Some((kind, what)) = problem {
                        let key = format!("digits/{}/extreme-offset/{}", scanner.name(), kind);
                        report.violation_with(&key, t.len() as u64, || (format!("{}::<{}>({:?} with {consumed} bytes advanced over, end seen {at_end}, offset {offset}): {what}", scanner.name(), I::NAME, show(t)), json!({"property": "C13", "family": "extreme", "type": I::NAME, "scanner": scanner.name(), "input_hex": hex(t), "input": show(t), "offset": offset.to_string(), "consumed": consumed, "at_end": at_end})));
                    }
                }
            }
        }
    }
}

/// C14 part: raw 8-byte loads of the digit scanners must stay inside the buffered data. Every
/// string of length <= 5 (quick) / 6 (thorough) over {-,0,1,9,x}, every start offset, 1..=8 bytes
/// buffered with STALE DIGITS right behind the buffered window, rest at once and byte-wise, all
/// four scanners, three integer types: the result must be the reference result for the text alone.
pub fn stale_window_family(tier: Tier, report: &mut Report) {
    fn go<I: ScanInt>(strings: &[Vec<u8>], report: &mut Report) {
        let total = mc_core::par::par_fold(
            strings.len(),
            mc_core::threads(),
            Report::new,
            |acc, i| {
                let s = &strings[i];
                acc.states += 1;
                for offset in 0..=s.len() {
                    for b in 1..=s.len().min(8) {
                        for bytewise in [false, true] {
                            for scanner in Scanner::ALL {
                                let problems = run_case_in::<I>(s, offset, scanner, b, bytewise, true);
                                acc.evaluations += 1;
                                acc.transitions += 1;
                                acc.nontrivial += 1;
                                acc.outcome(format!("stale-window:{}:{}", scanner.name(), problems.len()));
                                for (kind, what) in &problems {
                                    acc.violation(
                                        format!("digits/{}/load-beyond-window/{}", scanner.name(), kind),
                                        format!("{}::<{}>({:?}, offset {offset}) with {b} bytes buffered and stale digits behind them, rest {}: {what}", scanner.name(), I::NAME, show(s), if bytewise { "byte-wise" } else { "at once" }),
                                        {
                                            let mut v = replay_value::<I>(s, offset, scanner, b, bytewise, true);
                                            v["property"] = json!("C14");
                                            v["subject"] = json!("digit scanners");
                                            v
                                        },
                                        (s.len() * 64 + b) as u64,
                                    );
                                }
                            }
                        }
                    }
                }
            },
            |a, b| a.merge(b),
        );
        report.merge(total);
    }
    let alpha = [b'-', b'0', b'1', b'9', b'x'];
    let max_len = tier.pick(5, 6);
    let mut strings: Vec<Vec<u8>> = Vec::new();
    for n in 1..=max_len {
        for mut i in 0..alpha.len().pow(n as u32) {
            let mut s = Vec::new();
            for _ in 0..n {
                s.push(alpha[i % 5]);
                i /= 5;
            }
            strings.push(s);
        }
    }
    // long digit runs that end at the end of the input (7 / 8 / 9 / 15 / 16 / 17 characters)
    for n in [7usize, 8, 9, 15, 16, 17] {
        strings.push(b"123456789012345678"[..n].to_vec());
        let mut m = b"-".to_vec();
        m.extend_from_slice(&b"123456789012345678"[..n - 1]);
        strings.push(m);
    }
    go::<i32>(&strings, report);
    go::<u64>(&strings, report);
    go::<i8>(&strings, report);
    report.completed.push(format!("digit scanners with stale digits behind the buffered window: {} strings x offsets x 1..=8 bytes buffered x {{at once, byte-wise}} x 4 scanners x {{i32, u64, i8}}", strings.len()));
}

fn s_family<I: ScanInt>(tier: Tier, budget: &Budget, report: &mut Report) {
    let alpha = [b'-', b'0', b'1', b'9', b'x'];
    let max_len = tier.pick(4, 5);
    let mut strings: Vec<Vec<u8>> = Vec::new();
    for n in 0..=max_len {
        for mut i in 0..alpha.len().pow(n as u32) {
            let mut s = Vec::new();
            for _ in 0..n {
                s.push(alpha[i % 5]);
                i /= 5;
            }
            strings.push(s);
        }
    }
    let total = mc_core::par::par_fold(
        strings.len(),
        mc_core::threads(),
        Report::new,
        |acc, i| {
            if budget.expired() {
                acc.cap(format!("S family for {} cut short by the time budget", I::NAME));
                return;
            }
            let s = &strings[i];
            acc.states += 1;
            for offset in 0..=s.len() {
                for b in 0..=s.len() {
                    check_case::<I>(s, offset, b, false, "S", acc);
                }
            }
            // the same string with 8 more buffered bytes behind it (fast path of the _multi variants)
            let mut padded = s.clone();
            padded.extend_from_slice(b" 1234567");
            for offset in 0..=s.len() {
                check_case::<I>(&padded, offset, padded.len(), false, "S", acc);
            }
        },
        |a, b| a.merge(b),
    );
    report.merge(total);
    report.completed.push(format!("S: all {} strings of length <= {max_len} over {{-,0,1,9,x}} for {} x every offset x every buffered amount (+ padded to the fast path) x 4 scanners", strings.len(), I::NAME));
}

// ------------------------------------------------------------------ K1 / K2: the SWAR kernel through an arena

const REC: usize = 24;

struct Arena {
    bytes: Vec<u8>,
    offsets: Vec<usize>,
}

fn arena_check<I: ScanInt>(arena: &Arena, scanner: Scanner, family: &str, report: &mut Report) {
    let bytes = &arena.bytes;
    let res = catch(|| {
        let mut reader = DeferredReader::from_read(&bytes[..]);
        reader.set_chunk_size(bytes.len());
        reader.request(bytes.len());
        assert_eq!(reader.buf_len(), bytes.len(), "harness: arena not fully buffered");
        let mut out: Vec<Result<(Option<I>, usize), (String, String)>> = Vec::with_capacity(arena.offsets.len());
        for &o in &arena.offsets {
            out.push(catch(|| scanner.call::<I>(&mut reader, o)));
        }
        assert_eq!(reader.position(), 0);
        out
    });
    let out = match res {
        Ok(o) => o,
        Err((m, l)) => {
            report.machinery_errors.push(format!("arena harness panicked: {m} @ {l}"));
            return;
        }
    };
    for (k, got) in out.iter().enumerate() {
        let o = arena.offsets[k];
        report.evaluations += 1;
        // the record: bytes from o to the end of its slot (the reference sees the whole arena)
        if let Some((kind, what)) = classify::<I>(got, bytes, o, scanner.signed()) {
            let rec_end = (o / REC + 1) * REC;
            let rec = &bytes[o..rec_end.min(bytes.len())];
            // re-express relative to the record for the replay
            let key = format!("digits/{}/{}/{}", scanner.name(), type_class::<I>(), kind);
            report.violation_with(&key, rec.len() as u64, || {
                (
                    format!("{}::<{}> on fully buffered {:?} (kernel family {family}): {what} [offsets relative to arena offset {o}]", scanner.name(), I::NAME, show(rec)),
                    json!({"property": "C13", "family": "case", "type": I::NAME, "scanner": scanner.name(), "input_hex": hex(rec), "input": show(rec), "offset": 0, "buffered": rec.len(), "rest_bytewise": false}),
                )
            });
        }
    }
    report.transitions += out.len() as u64;
}

const TERMS: [u8; 30] = [
    b' ', b'\n', b'-', b'/', b':', 0, 0xff, b'a', 0x10, 0x29, 0x3a, 0x3b, 0x3c, 0x3d, 0x3e, 0x3f, 0x40, 0xb0, 0xb1, 0xb2, 0xb3, 0xb4, 0xb5, 0xb6, 0xb7, 0xb8, 0xb9, b'\t', 0x20 | 0x80, 0x1f,
];
const FILLERS: [u8; 3] = [b'0', b'9', 0xff];

/// K1 block: digit strings `lo..hi` of width `len`, every terminator and filler; optionally behind '-'.
fn k1_block(len: usize, lo: u64, hi: u64, minus: bool, terms: &[u8]) -> Arena {
    let n = (hi - lo) as usize * terms.len() * FILLERS.len();
    let mut bytes = vec![0u8; n * REC + 8];
    let mut offsets = Vec::with_capacity(n);
    let mut slot = 0usize;
    for v in lo..hi {
        let mut digits = [b'0'; 20];
        let mut x = v;
        for i in (0..len).rev() {
            digits[i] = b'0' + (x % 10) as u8;
            x /= 10;
        }
        for &t in terms {
            for &f in &FILLERS {
                let base = slot * REC;
                let rec = &mut bytes[base..base + REC];
                let mut p = 0;
                if minus {
                    rec[0] = b'-';
                    p = 1;
                }
                rec[p..p + len].copy_from_slice(&digits[..len]);
                rec[p + len] = t;
                for b in rec[p + len + 1..].iter_mut() {
                    *b = f;
                }
                // last byte of the slot always stops a digit run so records do not bleed
                rec[REC - 1] = b'|';
                offsets.push(base);
                slot += 1;
            }
        }
    }
    Arena { bytes, offsets }
}

fn k1_family(tier: Tier, budget: &Budget, report: &mut Report) {
    let max_len = tier.pick(6usize, 8usize);
    let terms: &[u8] = tier.pick(&TERMS[..12], &TERMS[..]);
    // blocks of at most 4096 digit strings
    let mut blocks: Vec<(usize, u64, u64, bool)> = Vec::new();
    for minus in [false, true] {
        for len in 0..=max_len {
            let total = 10u64.pow(len as u32);
            let mut lo = 0;
            while lo < total {
                let hi = (lo + 4096).min(total);
                blocks.push((len, lo, hi, minus));
                lo = hi;
            }
        }
    }
    let thorough = tier == Tier::Thorough;
    let total = mc_core::par::par_fold(
        blocks.len(),
        mc_core::threads(),
        Report::new,
        |acc, i| {
            if budget.expired() {
                if acc.caps.is_empty() {
                    acc.cap("K1 cut short by the time budget");
                }
                return;
            }
            let (len, lo, hi, minus) = blocks[i];
            let arena = k1_block(len, lo, hi, minus, terms);
            acc.states += (hi - lo) * terms.len() as u64 * 3;
            acc.nontrivial += (hi - lo) * terms.len() as u64 * 3;
            if !minus {
                arena_check::<u32>(&arena, Scanner::DigitsMulti, "K1", acc);
                arena_check::<u64>(&arena, Scanner::SignedDigitsMulti, "K1", acc);
                if thorough {
                    arena_check::<u8>(&arena, Scanner::DigitsMulti, "K1", acc);
                    arena_check::<i16>(&arena, Scanner::DigitsMulti, "K1", acc);
                }
            } else {
                arena_check::<i32>(&arena, Scanner::SignedDigitsMulti, "K1", acc);
                if thorough {
                    arena_check::<i64>(&arena, Scanner::SignedDigitsMulti, "K1", acc);
                    arena_check::<i8>(&arena, Scanner::SignedDigitsMulti, "K1", acc);
                    arena_check::<u32>(&arena, Scanner::SignedDigitsMulti, "K1", acc);
                }
            }
        },
        |a, b| a.merge(b),
    );
    let capped = !total.caps.is_empty();
    report.merge(total);
    if !capped {
        report.completed.push(format!("K1: every digit string of length 0..={max_len} (plain and behind '-') x {} terminators x 3 fillers through the SWAR kernel", terms.len()));
    }
}

fn k2_family(report: &mut Report) {
    // per lane p: prefix "12345678"[..p], all 256 bytes at lane p, 3 fillers; plain and behind '-'
    for minus in [false, true] {
        let mut bytes = Vec::new();
        let mut offsets = Vec::new();
        for p in 0..=8usize {
            for b in 0..=255u8 {
                for &f in &FILLERS {
                    let base = bytes.len();
                    let mut rec = vec![f; REC];
                    let mut q = 0;
                    if minus {
                        rec[0] = b'-';
                        q = 1;
                    }
                    rec[q..q + p].copy_from_slice(&b"12345678"[..p]);
                    rec[q + p] = b;
                    rec[REC - 1] = b'|';
                    bytes.extend_from_slice(&rec);
                    offsets.push(base);
                }
            }
        }
        bytes.extend_from_slice(&[b'|'; 8]);
        let arena = Arena { bytes, offsets };
        report.states += arena.offsets.len() as u64;
        report.nontrivial += arena.offsets.len() as u64;
        arena_check::<u32>(&arena, Scanner::DigitsMulti, "K2", report);
        arena_check::<u64>(&arena, Scanner::DigitsMulti, "K2", report);
        arena_check::<u8>(&arena, Scanner::DigitsMulti, "K2", report);
        arena_check::<i32>(&arena, Scanner::SignedDigitsMulti, "K2", report);
        arena_check::<i64>(&arena, Scanner::SignedDigitsMulti, "K2", report);
        arena_check::<i8>(&arena, Scanner::SignedDigitsMulti, "K2", report);
        arena_check::<u16>(&arena, Scanner::SignedDigitsMulti, "K2", report);
        arena_check::<i128>(&arena, Scanner::SignedDigitsMulti, "K2", report);
    }
    report.completed.push("K2: per lane 0..=8 all 256 byte values x 3 fillers, plain and behind '-', 8 type/scanner instantiations".into());
}

macro_rules! for_types {
    ($f:ident, $tier:expr, $budget:expr, $report:expr, $($t:ty),*) => {$( $f::<$t>($tier, $budget, $report); )*};
}

/// Z family: runs of zeros (and of one other digit) of every length around the 8-digit block sizes,
/// followed by tails that start another token (a sign, a digit behind a sign, garbage, a blank):
/// block-wise scanners must stop exactly where the digit run ends.
fn z_family<I: ScanInt>(_tier: Tier, _budget: &Budget, report: &mut Report) {
    let tails: [&[u8]; 14] = [b"", b"-", b"-5", b"-0", b"--5", b"+5", b"x", b" 5", b"-55555555", b"-x", b"1", b"-00000000", b"-1234567", b"x00000000"];
    let mut strings: Vec<Vec<u8>> = Vec::new();
    for n in [6usize, 7, 8, 9, 15, 16, 17, 23, 24, 25] {
        for fill in [b'0', b'1'] {
            for sign in [&b""[..], b"-"] {
                for tail in tails {
                    let mut s = sign.to_vec();
                    s.extend(std::iter::repeat(fill).take(n));
                    s.extend_from_slice(tail);
                    strings.push(s);
                }
            }
        }
    }
    let total = mc_core::par::par_fold(
        strings.len(),
        mc_core::threads(),
        Report::new,
        |acc, i| {
            let s = &strings[i];
            acc.states += 1;
            for offset in [0usize, 1] {
                for b in [s.len(), s.len().saturating_sub(1), 8, 9, 16, 17] {
                    if b <= s.len() {
                        check_case::<I>(s, offset, b, false, "Z", acc);
                        check_case::<I>(s, offset, b, true, "Z", acc);
                    }
                }
            }
        },
        |a, b| a.merge(b),
    );
    report.merge(total);
    report.completed.push(format!("Z family for {}: {} strings (runs of 6..25 zeros / ones, optional sign, 14 tails) x offsets {{0,1}} x buffered {{all, all-1, 8, 9, 16, 17}} x rest at once / byte-wise", I::NAME, strings.len()));
}

pub fn run(tier: Tier, report: &mut Report) {
    let budget = Budget::new(tier.pick(35.0, 1500.0));
    k2_family(report);
    for_types!(z_family, tier, &budget, report, i8, u8, i32, u64, i128);
    extreme_offsets::<u32>(report);
    extreme_offsets::<i64>(report);
    extreme_offsets::<i8>(report);
    report.completed.push("extreme offsets (usize::MAX-16 ..= usize::MAX, 2^63, 2^40) for all four scanners: (Some(0), offset), no panic, no wrap-around into the fast path".into());
    if tier == Tier::Quick {
        for_types!(s_family, tier, &budget, report, i8, u8, i16);
        for_types!(w_family, tier, &budget, report, i8, i32, isize, i128, u8, u32, usize, u128);
    } else {
        for_types!(s_family, tier, &budget, report, i8, i16, i32, i64, i128, isize, u8, u16, u32, u64, u128, usize);
        for_types!(w_family, tier, &budget, report, i8, i16, i32, i64, i128, isize, u8, u16, u32, u64, u128, usize);
    }
    k1_family(tier, &budget, report);
    report.traces = report.evaluations;
    report.sample(json!({"family": "W", "call": "signed_ascii_digits_multi::<i8>(\"#-0000000128 \", offset 1) with 9 bytes buffered, rest byte-wise", "expected": "(Some(-128), 12)"}));
    report.sample(json!({"family": "K1", "call": "ascii_digits_multi::<u32>(\"00012345:99999999999999|\", 0) fully buffered", "expected": "(Some(12345), 8)"}));
    report.sample(json!({"family": "K2", "call": "signed_ascii_digits_multi::<i32>(\"-123\\xb4000..\", 0) fully buffered (lane 3 = 0xb4)", "expected": "(Some(-123), 4)"}));
    report.sample(json!({"family": "S", "call": "signed_ascii_digits::<u8>(\"-x\", 0), nothing buffered", "expected": "(Some(0), 0): a lone '-' is not consumed"}));
}

fn dispatch_case(ty: &str, s: &[u8], offset: usize, scanner: Scanner, buffered: usize, bytewise: bool, stale: bool, complete: bool) -> Vec<(String, String)> {
    macro_rules! go {
        ($($t:ty),*) => {$( if ty == stringify!($t) { return run_case_full::<$t>(s, offset, scanner, buffered, bytewise, stale, complete); } )*};
    }
    go!(i8, i16, i32, i64, i128, isize, u8, u16, u32, u64, u128, usize);
    panic!("unknown type {ty}");
}

pub fn replay(v: &Value) -> (bool, String) {
    if v["family"] == "extreme" {
        let t = unhex(v["input_hex"].as_str().unwrap());
        let offset: usize = v["offset"].as_str().unwrap().parse().unwrap();
        let consumed = v["consumed"].as_u64().unwrap() as usize;
        let at_end = v["at_end"].as_bool().unwrap_or(false);
        let scanner = Scanner::from_name(v["scanner"].as_str().unwrap());
        let res = catch(|| {
            let mut reader = DeferredReader::from_read(&t[..]);
            reader.request(t.len() + at_end as usize);
            let c = consumed.min(reader.buf_len());
            reader.advance(c);
            scanner.call::<i64>(&mut reader, offset).1
        });
        let bad = !matches!(res, Ok(o) if o == offset);
        return (bad, format!("{}({:?}, offset {offset}) -> {res:?}; expected offset unchanged and no panic\n", scanner.name(), show(&t)));
    }
    let s = unhex(v["input_hex"].as_str().unwrap());
    let scanner = Scanner::from_name(v["scanner"].as_str().unwrap());
    let ty = v["type"].as_str().unwrap();
    let offset = v["offset"].as_u64().unwrap() as usize;
    let buffered = v["buffered"].as_u64().unwrap() as usize;
    let bytewise = v["rest_bytewise"].as_bool().unwrap_or(false);
    let stale = v["stale"].as_bool().unwrap_or(false);
    let complete = v["complete"].as_bool().unwrap_or(false);
    let p1 = dispatch_case(ty, &s, offset, scanner, buffered, bytewise, stale, complete);
    let p2 = dispatch_case(ty, &s, offset, scanner, buffered, bytewise, stale, complete);
    let mut text = format!("{}::<{ty}>({:?}, offset {offset}), {buffered} bytes buffered, rest {}\n  reference: {:?}\n", scanner.name(), show(&s), if bytewise { "byte-wise" } else { "at once" }, ref_scan(&s, offset, scanner.signed()));
    if p1 != p2 {
        text.push_str("  NONDETERMINISTIC REPLAY\n");
    }
    for (k, w) in &p1 {
        text.push_str(&format!("  {k}: {w}\n"));
    }
    (!p1.is_empty(), text)
}

pub const RULE: &str = "K1: every digit string up to the completed length x terminator set x 3 fillers (plain and behind '-') through the _multi variants with >= 8 bytes buffered; K2: per lane all 256 byte values; W: per type boundary values x leading zeros x sign x terminator x offset x every buffered amount x {rest at once, byte-wise} x all 4 scanners; S: all strings of length <= 4/5 over {-,0,1,9,x} x offsets x buffered amounts. Cases are distinct by construction. Non-trivial = the SWAR fast path was taken (>= offset+8 bytes buffered) or a refill happened while the token was partially buffered";

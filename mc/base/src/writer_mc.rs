//! Explicit-state search over operation histories of the real `DeferredWriter`
//! (C11; writer half of C14).
//!
//! State = history replayed on a fresh writer + scripted sink; canonical key = hook H2 state
//! (buffered length, capacity, parked error, panicked flag) + sink script state. The logical output
//! stream is position-stamped (integers aside), the writer never branches on a byte value, so the
//! stream content/length is not part of the key (data independence) — which closes the state space.
//! Every transition is executed with two destructive epilogues (flush+drop, drop only) so that a
//! lost, duplicated or reordered byte is observed at the transition that causes it.

use flussab::{write::text as wtext, DeferredWriter};
use mc_core::bfs::bfs;
use mc_core::choice::{explore, Chooser};
use mc_core::report::Report;
use mc_core::source::stamp;
use mc_core::subject::{catch, short_loc};
use mc_core::{json, Budget, Tier, Value};
use std::cell::RefCell;
use std::io::{self, Write};
use std::rc::Rc;

#[derive(Clone, Copy, Debug, PartialEq, Eq)]
pub enum Mode {
    C11,
    C14,
}

#[derive(Clone, Copy, Debug, PartialEq, Eq)]
pub enum Fail {
    None,
    /// the j-th write call (0-based) returns an error, later calls work again
    ErrOnce(u32),
    /// like `ErrOnce`, with error kind `mc_core::source::FAULT_KINDS[.1]`
    ErrOnceKind(u32, u8),
    /// every write call from the j-th on returns an error
    ErrFrom(u32),
    /// the j-th write call returns Ok(0) (write_all turns this into WriteZero)
    ZeroOnce(u32),
    /// the j-th write call panics
    PanicAt(u32),
    /// a sink that never fails but is slow to take anything: every even-numbered call answers
    /// `Interrupted`, every odd-numbered call accepts ONE byte (any number of interruptions inside one
    /// hand-over; the retry on `Interrupted` must not be rationed)
    Stutter,
}

#[derive(Clone, Debug, PartialEq, Eq)]
pub struct Cfg {
    /// None = public constructor (16 KiB)
    pub capacity: Option<usize>,
    pub fail: Fail,
    pub interrupts: u32,
    pub short_writes: bool,
}

#[derive(Default)]
pub struct SinkState {
    pub log: Vec<u8>,
    pub write_calls: u32,
    pub flush_calls: u32,
    pub interrupts_left: u32,
    pub failures: u32,
    pub failed_unreported: bool,
    pub calls_while_unreported: u32,
    pub panics: u32,
    pub calls_after_panic: u32,
    pub chooser: Chooser,
}

struct Sink {
    fail: Fail,
    short_writes: bool,
    st: Rc<RefCell<SinkState>>,
}

impl Write for Sink {
    fn write(&mut self, buf: &[u8]) -> io::Result<usize> {
        let mut st = self.st.borrow_mut();
        let i = st.write_calls;
        st.write_calls += 1;
        if st.failed_unreported {
            st.calls_while_unreported += 1;
        }
        if st.panics > 0 {
            st.calls_after_panic += 1;
        }
        if buf.is_empty() {
            return Ok(0);
        }
        match self.fail {
            Fail::ErrOnce(j) if i == j => {
                st.failures += 1;
                st.failed_unreported = true;
                return Err(io::Error::new(io::ErrorKind::Other, "scripted sink failure"));
            }
            Fail::ErrOnceKind(j, k) if i == j => {
                st.failures += 1;
                st.failed_unreported = true;
                return Err(io::Error::new(mc_core::source::FAULT_KINDS[k as usize % mc_core::source::FAULT_KINDS.len()], "scripted sink failure"));
            }
            Fail::ErrFrom(j) if i >= j => {
                st.failures += 1;
                st.failed_unreported = true;
                return Err(io::Error::new(io::ErrorKind::Other, "scripted sink failure"));
            }
            Fail::ZeroOnce(j) if i == j => {
                st.failures += 1;
                st.failed_unreported = true;
                return Ok(0);
            }
            Fail::PanicAt(j) if i == j => {
                st.panics += 1;
                drop(st);
                panic!("scripted sink panic");
            }
            Fail::Stutter => {
                if i % 2 == 0 {
                    return Err(io::Error::new(io::ErrorKind::Interrupted, "scripted interrupt"));
                }
                st.log.push(buf[0]);
                return Ok(1);
            }
            _ => {}
        }
        // menu: accept all (default) | accept 1 | accept len-1 | Interrupted
        let mut sizes: Vec<usize> = vec![buf.len()];
        if self.short_writes {
            if buf.len() > 1 {
                sizes.push(1);
            }
            if buf.len() > 2 {
                sizes.push(buf.len() - 1);
            }
        }
        let n = sizes.len() as u32 + (st.interrupts_left > 0) as u32;
        let c = st.chooser.choose(n) as usize;
        if c >= sizes.len() {
            st.interrupts_left -= 1;
            return Err(io::Error::new(io::ErrorKind::Interrupted, "scripted interrupt"));
        }
        let k = sizes[c];
        st.log.extend_from_slice(&buf[..k]);
        Ok(k)
    }

    fn flush(&mut self) -> io::Result<()> {
        let mut st = self.st.borrow_mut();
        st.flush_calls += 1;
        // a forwarded flush is a call to the sink as well: none between a failure and its report
        if st.failed_unreported {
            st.calls_while_unreported += 1;
        }
        Ok(())
    }
}

#[derive(Clone, Debug, PartialEq, Eq)]
pub enum WOp {
    Write(usize),
    WriteAll(usize),
    WriteDefer(usize),
    /// (type index, value index) into the integer tables
    Digits(u8, u8),
    /// buf_write_ptr(len) + fill + advance_unchecked(len) if non-null
    Ptr(usize),
    /// `buf_write_ptr(len)`, then only `used` of the reserved bytes are written and advanced over
    /// (what the integer writers do with their MAX_LEN reservation)
    PtrPartial(usize, usize),
    Flush,
    FlushDefer,
    Check,
}

#[derive(Clone, Debug, PartialEq, Eq)]
pub struct Step {
    pub op: WOp,
    pub choices: Vec<(u32, u32)>,
}

pub const INT_TYPES: [&str; 12] = ["i8", "u8", "i16", "u16", "i32", "u32", "i64", "u64", "i128", "u128", "isize", "usize"];
/// value classes: 0, 1, -1 (or MAX-1 for unsigned), 9, 10, MIN, MAX
pub const INT_VALUES: usize = 7;

macro_rules! int_value {
    ($t:ty, $vi:expr) => {{
        let v: $t = match $vi {
            0 => 0,
            1 => 1,
            2 => (0 as $t).wrapping_sub(1), // -1 for signed, MAX for unsigned
            3 => 9,
            4 => 10,
            5 => <$t>::MIN,
            _ => <$t>::MAX,
        };
        v
    }};
}

/// Write integer (ti, vi) through the real `write::text::ascii_digits`; returns the canonical text.
fn write_digits(w: &mut DeferredWriter, ti: u8, vi: u8) -> String {
    macro_rules! go {
        ($($idx:expr => $t:ty),*) => {
            match ti { $( $idx => { let v = int_value!($t, vi); wtext::ascii_digits(w, v); format!("{}", v) } )* _ => unreachable!() }
        };
    }
    go!(0 => i8, 1 => u8, 2 => i16, 3 => u16, 4 => i32, 5 => u32, 6 => i64, 7 => u64, 8 => i128, 9 => u128, 10 => isize, 11 => usize)
}

struct World<'a> {
    writer: Option<DeferredWriter<'a>>,
    sink: Rc<RefCell<SinkState>>,
    /// the logical output stream: everything written so far
    stream: Vec<u8>,
    /// a failure (error, Ok(0)) ever happened
    ever_failed: bool,
    post_panic: bool,
    /// since the sink panicked only operations that never touch the sink (check_io_error) ran
    quiet_since_panic: bool,
}

impl Drop for World<'_> {
    fn drop(&mut self) {
        // dropping the writer flushes; a scripted sink panic must not escape the harness
        if let Some(wr) = self.writer.take() {
            let _ = catch(move || drop(wr));
        }
    }
}

fn build<'a>(cfg: &Cfg, forced: Vec<(u32, u32)>) -> World<'a> {
    let st = Rc::new(RefCell::new(SinkState { interrupts_left: cfg.interrupts, chooser: Chooser::new(forced), ..Default::default() }));
    let sink = Sink { fail: cfg.fail, short_writes: cfg.short_writes, st: st.clone() };
    let writer = match cfg.capacity {
        Some(c) => DeferredWriter::verif_with_capacity(Box::new(sink), c),
        // both public constructors: the generic one for the accepting sink, the boxed one otherwise
        None if matches!(cfg.fail, Fail::None) => DeferredWriter::from_write(sink),
        None => DeferredWriter::from_boxed_dyn_write(Box::new(sink)),
    };
    World { writer: Some(writer), sink: st, stream: Vec::new(), ever_failed: false, post_panic: false, quiet_since_panic: false }
}

#[derive(Debug, Clone)]
enum OpResult {
    Unit,
    WriteOk(Result<usize, String>),
    Io(Result<(), String>),
    Ptr { null: bool },
    Panicked(String, String),
}

fn next_bytes(stream: &Vec<u8>, len: usize) -> Vec<u8> {
    (0..len).map(|i| stamp(stream.len() + i)).collect()
}

fn apply(w: &mut World, op: &WOp) -> OpResult {
    let writer = w.writer.as_mut().unwrap();
    let stream = &mut w.stream;
    let r = catch(|| match op {
        WOp::Write(len) => {
            let data = next_bytes(stream, *len);
            stream.extend_from_slice(&data);
            OpResult::WriteOk(writer.write(&data).map_err(|e| e.to_string()))
        }
        WOp::WriteAll(len) => {
            let data = next_bytes(stream, *len);
            stream.extend_from_slice(&data);
            OpResult::WriteOk(writer.write_all(&data).map(|_| *len).map_err(|e| e.to_string()))
        }
        WOp::WriteDefer(len) => {
            let data = next_bytes(stream, *len);
            stream.extend_from_slice(&data);
            writer.write_all_defer_err(&data);
            OpResult::Unit
        }
        WOp::Digits(ti, vi) => {
            // the model appends the canonical decimal text before the call (reference: format!)
            macro_rules! canon {
                ($($idx:expr => $t:ty),*) => { match *ti { $( $idx => format!("{}", int_value!($t, *vi)), )* _ => unreachable!() } };
            }
            let text = canon!(0 => i8, 1 => u8, 2 => i16, 3 => u16, 4 => i32, 5 => u32, 6 => i64, 7 => u64, 8 => i128, 9 => u128, 10 => isize, 11 => usize);
            stream.extend_from_slice(text.as_bytes());
            let _ = write_digits(writer, *ti, *vi);
            OpResult::Unit
        }
        WOp::Ptr(len) => {
            let st = writer.verif_state();
            let p = writer.buf_write_ptr(*len);
            if p.is_null() {
                OpResult::Ptr { null: true }
            } else if *len > st.capacity - st.len {
                // a pointer was handed out although the space is not there: do NOT write through it
                OpResult::Ptr { null: false }
            } else {
                let data = next_bytes(stream, *len);
                stream.extend_from_slice(&data);
                unsafe {
                    std::ptr::copy_nonoverlapping(data.as_ptr(), p, *len);
                    writer.advance_unchecked(*len);
                }
                OpResult::Ptr { null: false }
            }
        }
        WOp::PtrPartial(len, used) => {
            let st = writer.verif_state();
            let p = writer.buf_write_ptr(*len);
            if p.is_null() {
                OpResult::Ptr { null: true }
            } else if *len > st.capacity - st.len {
                OpResult::Ptr { null: false }
            } else {
                let data = next_bytes(stream, *used);
                stream.extend_from_slice(&data);
                unsafe {
                    std::ptr::copy_nonoverlapping(data.as_ptr(), p, *used);
                    writer.advance_unchecked(*used);
                }
                OpResult::Ptr { null: false }
            }
        }
        WOp::Flush => OpResult::Io(writer.flush().map_err(|e| e.to_string())),
        WOp::FlushDefer => {
            writer.flush_defer_err();
            OpResult::Unit
        }
        WOp::Check => OpResult::Io(writer.check_io_error().map_err(|e| e.to_string())),
    });
    match r {
        Ok(r) => r,
        Err((m, l)) => OpResult::Panicked(m, short_loc(&l)),
    }
}

fn is_subsequence(log: &[u8], stream: &[u8]) -> bool {
    let mut i = 0;
    for &b in stream {
        if i < log.len() && log[i] == b {
            i += 1;
        }
    }
    i == log.len()
}

type Problems = Vec<(&'static str, String)>;

struct Before {
    len: usize,
    capacity: usize,
    failures: u32,
    failed_unreported: bool,
    write_calls: u32,
}

fn before(w: &World) -> Before {
    let st = w.writer.as_ref().unwrap().verif_state();
    let s = w.sink.borrow();
    Before { len: st.len, capacity: st.capacity, failures: s.failures, failed_unreported: s.failed_unreported, write_calls: s.write_calls }
}

fn oracle(cfg: &Cfg, mode: Mode, w: &mut World, op: &WOp, b: &Before, res: &OpResult) -> Problems {
    let mut p: Problems = Vec::new();
    let st = w.writer.as_ref().unwrap().verif_state();
    if st.len > st.capacity {
        p.push(("safety", format!("buffer length {} exceeds its capacity {}", st.len, st.capacity)));
        return p;
    }
    if cfg.capacity.map_or(false, |c| st.capacity != c) {
        p.push(("safety", format!("buffer capacity changed from {:?} to {} (reallocation: a write went past the reserved space)", cfg.capacity, st.capacity)));
    }
    if let OpResult::Panicked(m, l) = res {
        let sink_panicked = w.sink.borrow().panics > 0 && m.contains("scripted sink panic");
        if !(sink_panicked && matches!(cfg.fail, Fail::PanicAt(_))) {
            p.push(("panic", format!("{op:?} panicked: {m} @ {l}")));
            return p;
        }
        w.post_panic = true;
        return p; // the panic of the sink propagating is the accepted outcome; drop rule checked in the epilogue
    }
    if w.post_panic {
        // only memory safety is judged after a sink panic (the buffered data may be re-sent)
        return p;
    }
    let mut sink = w.sink.borrow_mut();
    let new_failure = sink.failures > b.failures;
    if new_failure {
        w.ever_failed = true;
    }
    // --- return values
    match (op, res) {
        (WOp::Write(len), OpResult::WriteOk(r)) | (WOp::WriteAll(len), OpResult::WriteOk(r)) => {
            if r != &Ok(*len) {
                p.push(("return", format!("{op:?} returned {r:?}; write calls always succeed (errors are deferred)")));
            }
        }
        (WOp::Flush, OpResult::Io(r)) | (WOp::Check, OpResult::Io(r)) => {
            let expected_err = b.failed_unreported || new_failure;
            if r.is_err() != expected_err {
                p.push(("report", format!("{op:?} returned {r:?}, expected {} (unreported failure before the call: {}, failure during the call: {new_failure})", if expected_err { "the deferred error" } else { "Ok" }, b.failed_unreported)));
            }
            if r.is_err() {
                sink.failed_unreported = false;
            }
        }
        (WOp::Ptr(len) | WOp::PtrPartial(len, _), OpResult::Ptr { null }) => {
            let free = b.capacity - b.len;
            if *null != (*len > free) {
                p.push(("null-ptr", format!("buf_write_ptr({len}) returned {} with {free} bytes of spare capacity", if *null { "null" } else { "a pointer" })));
            }
        }
        _ => {}
    }
    // --- the sink is never called between a failure and its report
    if sink.calls_while_unreported > 0 {
        p.push(("sink-called-after-failure", format!("the sink was called {} time(s) between a failure and its report", sink.calls_while_unreported)));
    }
    // --- what the sink has seen
    if !w.ever_failed {
        if sink.log.len() > w.stream.len() || sink.log[..] != w.stream[..sink.log.len()] {
            p.push(("order", format!("sink log ({} bytes) is not a prefix of the written stream ({} bytes): first difference at {}", sink.log.len(), w.stream.len(), sink.log.iter().zip(w.stream.iter()).position(|(a, b)| a != b).unwrap_or(w.stream.len()))));
        } else {
            // buffered bytes = exactly the not yet delivered tail
            let buffered = w.writer.as_ref().unwrap().verif_buffered().to_vec();
            if buffered[..] != w.stream[sink.log.len()..] {
                p.push(("lost", format!("{} bytes delivered + {} buffered != {} written (or the buffered bytes differ from the pending tail)", sink.log.len(), buffered.len(), w.stream.len())));
            }
        }
    } else if !is_subsequence(&sink.log, &w.stream) {
        p.push(("order", "after a sink failure the sink log is no longer an in-order, duplicate-free selection of the written stream".to_string()));
    }
    if matches!(op, WOp::Flush | WOp::FlushDefer) && st.len != 0 {
        p.push(("lost", format!("{} bytes still buffered after {op:?}", st.len)));
    }
    let _ = (mode, b.write_calls);
    p
}

#[derive(Clone, Copy, Debug, PartialEq, Eq)]
enum Epilogue {
    FlushThenDrop,
    DropOnly,
    /// the writer goes out of scope while the thread unwinds from a panic that has nothing to do
    /// with the writer or the sink (`std::thread::panicking()` is true inside `Drop`)
    DropWhileUnwinding,
}

const UNRELATED: &str = "unrelated panic (harness)";

/// Destructive end of a history: what has the sink got once the writer is gone?
fn epilogue(cfg: &Cfg, w: &mut World, e: Epilogue, just_panicked: bool) -> Problems {
    let mut p: Problems = Vec::new();
    let calls_before = w.sink.borrow().write_calls;
    let unreported_before = w.sink.borrow().failed_unreported;
    let failures_before = w.sink.borrow().failures;
    let while_unreported_before = w.sink.borrow().calls_while_unreported;
    let post_panic = w.post_panic;
    let mut writer = w.writer.take().unwrap();
    let r = catch(move || {
        let mut flush_res = None;
        if e == Epilogue::FlushThenDrop && !post_panic {
            flush_res = Some(writer.flush().map_err(|e| e.to_string()));
        }
        if e == Epilogue::DropWhileUnwinding {
            let _w = writer;
            panic!("{}", UNRELATED);
        }
        drop(writer);
        flush_res
    });
    let r = match r {
        Err((m, _)) if e == Epilogue::DropWhileUnwinding && m == UNRELATED => Ok(None),
        x => x,
    };
    let sink = w.sink.borrow();
    match r {
        Err((m, l)) => {
            if !(matches!(cfg.fail, Fail::PanicAt(_)) && sink.panics > 0) {
                p.push(("panic", format!("flush/drop panicked: {m} @ {}", short_loc(&l))));
            }
            return p;
        }
        Ok(flush_res) => {
            if post_panic {
                // drop rule: when a sink write panicked (and nothing else happened since), dropping
                // the writer must not call the sink again. After later successful operations the
                // writer may legitimately flush again; only memory safety is judged then.
                if just_panicked && sink.write_calls != calls_before {
                    p.push(("drop", format!("the writer called the sink {} more time(s) when dropped right after a sink write panicked", sink.write_calls - calls_before)));
                }
                return p;
            }
            if e == Epilogue::FlushThenDrop && sink.calls_while_unreported > while_unreported_before {
                p.push(("sink-called-after-failure", format!("the sink was called {} time(s) between a failure and its report (final flush)", sink.calls_while_unreported - while_unreported_before)));
            }
            if let Some(r) = flush_res {
                let expected_err = unreported_before || sink.failures > failures_before;
                if r.is_err() != expected_err {
                    p.push(("report", format!("final flush returned {r:?}, expected {}", if expected_err { "the deferred error" } else { "Ok" })));
                }
            }
            if !w.ever_failed && sink.failures == 0 {
                if sink.log[..] != w.stream[..] {
                    let at = sink.log.iter().zip(w.stream.iter()).position(|(a, b)| a != b).unwrap_or(sink.log.len().min(w.stream.len()));
                    p.push(("lost", format!("after {e:?} the sink has {} bytes, {} were written; first difference at offset {at}", sink.log.len(), w.stream.len())));
                }
            } else if !is_subsequence(&sink.log, &w.stream) {
                p.push(("order", format!("after {e:?} the sink log is not an in-order, duplicate-free selection of the written stream")));
            }
            if sink.flush_calls != 0 {
                // recorded, not judged: the property does not speak about forwarding flush
            }
        }
    }
    p
}

fn key_of(cfg: &Cfg, w: &World) -> Vec<u8> {
    let st = w.writer.as_ref().unwrap().verif_state();
    let s = w.sink.borrow();
    let mut k = Vec::with_capacity(24);
    k.extend_from_slice(&(st.len as u32).to_le_bytes());
    k.extend_from_slice(&(st.capacity as u32).to_le_bytes());
    k.push(st.io_error as u8 | (st.panicked as u8) << 1 | (s.failed_unreported as u8) << 2 | (w.ever_failed as u8) << 3 | (w.post_panic as u8) << 4);
    // sink script state: how close are we to the scripted failure
    let horizon = match cfg.fail {
        Fail::None => 0,
        Fail::Stutter => 2,
        Fail::ErrOnce(j) | Fail::ErrOnceKind(j, _) | Fail::ErrFrom(j) | Fail::ZeroOnce(j) | Fail::PanicAt(j) => j + 1,
    };
    k.push(if matches!(cfg.fail, Fail::Stutter) { (s.write_calls % 2) as u8 } else { s.write_calls.min(horizon) as u8 });
    k.push(s.interrupts_left as u8);
    k
}

fn forced_of(hist: &[Step]) -> Vec<(u32, u32)> {
    hist.iter().flat_map(|s| s.choices.iter().copied()).collect()
}

fn replay<'a>(cfg: &Cfg, hist: &[Step], extra: &[(u32, u32)]) -> World<'a> {
    let mut forced = forced_of(hist);
    forced.extend_from_slice(extra);
    let mut w = build(cfg, forced);
    for step in hist {
        let b = before(&w);
        let res = apply(&mut w, &step.op);
        // cheap model upkeep (the full oracle ran when this history was created)
        if let OpResult::Panicked(..) = res {
            w.post_panic = true;
            w.quiet_since_panic = true;
        } else if !matches!(step.op, WOp::Check) {
            w.quiet_since_panic = false;
        }
        let mut sink = w.sink.borrow_mut();
        if sink.failures > b.failures {
            w.ever_failed = true;
        }
        if let OpResult::Io(Err(_)) = res {
            sink.failed_unreported = false;
        }
    }
    w
}

fn alphabet(cfg: &Cfg, mode: Mode, w: &World, tier: Tier) -> Vec<WOp> {
    let st = w.writer.as_ref().unwrap().verif_state();
    let cap = st.capacity;
    let free = cap - st.len;
    let mut ops = vec![WOp::Flush, WOp::FlushDefer, WOp::Check];
    let mut lens: Vec<usize> = if cfg.capacity.is_some() {
        // the property's own range, literally: every length 0..=3*capacity
        (0..=3 * cap).collect()
    } else {
        let mut v = vec![0, 1, free.saturating_sub(1), free, free + 1, cap - 1, cap, cap + 1, 2 * cap, 3 * cap];
        // fill levels that leave exactly MAX_LEN - 1, MAX_LEN, MAX_LEN + 1 bytes free for every
        // integer type (3, 4, 5, 6, 10, 11, 20, 39, 40 characters)
        for t in [2usize, 3, 4, 5, 6, 7, 9, 10, 11, 12, 19, 20, 21, 38, 39, 40, 41] {
            if free > t {
                v.push(free - t);
            }
        }
        v.sort();
        v.dedup();
        v
    };
    if w.post_panic {
        lens = vec![1, free + 1];
    }
    for &l in &lens {
        ops.push(WOp::WriteDefer(l));
    }
    // the two `Write` trait forms share the code path; a sparser set of lengths suffices
    for &l in &[0usize, 1, free, free + 1, cap, cap + 1, 3 * cap] {
        ops.push(WOp::Write(l));
        ops.push(WOp::WriteAll(l));
    }
    let values: &[u8] = tier.pick(&[0, 5, 6][..], &[0, 1, 2, 3, 4, 5, 6][..]);
    for ti in 0..INT_TYPES.len() as u8 {
        for &vi in values {
            ops.push(WOp::Digits(ti, vi));
        }
    }
    for l in [0usize, 1, free, free + 1, usize::MAX, usize::MAX / 2 + 1, (usize::MAX - st.len).wrapping_add(1), usize::MAX - st.len] {
        ops.push(WOp::Ptr(l));
    }
    for (l, used) in [(2usize, 1usize), (free, free / 2), (free, 0), (8, 3)] {
        if used <= l && l <= free {
            ops.push(WOp::PtrPartial(l, used));
        }
    }
    ops.sort_by_key(|o| format!("{o:?}"));
    ops.dedup();
    let _ = mode;
    ops
}

struct Trans {
    /// choices consumed by the operation itself (what a history step records)
    taken: Vec<(u32, u32)>,
    /// operation + epilogue choices (what the explorer branches on)
    taken_all: Vec<(u32, u32)>,
    problems: Problems,
    key: Vec<u8>,
    cold_path: bool,
    digits_near_end: bool,
    diverged: Option<String>,
}

fn transition(cfg: &Cfg, mode: Mode, hist: &[Step], op: &WOp, prefix: &[(u32, u32)], e: Epilogue) -> Trans {
    let describe = || {
        let mut h2 = hist.to_vec();
        h2.push(Step { op: op.clone(), choices: prefix.to_vec() });
        (format!("writer/{}", op_class(op)), format!("after {} earlier operation(s), {op:?} [capacity {:?}, sink {:?}]", hist.len(), cfg.capacity, cfg.fail), replay_value(cfg, mode, &h2, e))
    };
    let _guard = mc_core::abortguard::enter(&describe);
    let base_len = forced_of(hist).len();
    let mut w = replay(cfg, hist, prefix);
    let b = before(&w);
    let res = apply(&mut w, op);
    let mut problems = oracle(cfg, mode, &mut w, op, &b, &res);
    let key = key_of(cfg, &w);
    let broken = problems.iter().any(|(c, _)| *c == "safety");
    let sink_calls = w.sink.borrow().write_calls - b.write_calls;
    let taken = {
        let s = w.sink.borrow();
        s.chooser.taken[base_len.min(s.chooser.taken.len())..].to_vec()
    };
    if !broken {
        // the drop rule also holds when only check_io_error (which never touches the sink) ran since
        // the sink panicked
        if !matches!(res, OpResult::Panicked(..)) && !matches!(op, WOp::Check) {
            w.quiet_since_panic = false;
        }
        let just_panicked = matches!(res, OpResult::Panicked(..)) || (w.post_panic && w.quiet_since_panic);
        problems.extend(epilogue(cfg, &mut w, e, just_panicked));
    }
    let (taken_all, diverged) = {
        let s = w.sink.borrow();
        (s.chooser.taken[base_len.min(s.chooser.taken.len())..].to_vec(), s.chooser.diverged.clone())
    };
    let free = b.capacity - b.len;
    Trans {
        taken,
        taken_all,
        problems,
        key,
        cold_path: sink_calls > 0 && matches!(op, WOp::Write(_) | WOp::WriteAll(_) | WOp::WriteDefer(_) | WOp::Digits(..)),
        digits_near_end: matches!(op, WOp::Digits(..)) && free < 40,
        diverged,
    }
}

fn op_class(op: &WOp) -> &'static str {
    match op {
        WOp::Write(_) => "write",
        WOp::WriteAll(_) => "write_all",
        WOp::WriteDefer(_) => "write_all_defer_err",
        WOp::Digits(..) => "ascii_digits",
        WOp::Ptr(_) | WOp::PtrPartial(..) => "buf_write_ptr",
        WOp::Flush => "flush",
        WOp::FlushDefer => "flush_defer_err",
        WOp::Check => "check_io_error",
    }
}

fn category_reported(mode: Mode, cat: &str) -> bool {
    match mode {
        Mode::C11 => true,
        Mode::C14 => matches!(cat, "safety" | "panic" | "drop"),
    }
}

fn prop_name(mode: Mode) -> &'static str {
    match mode {
        Mode::C11 => "C11",
        Mode::C14 => "C14",
    }
}

fn fail_json(f: Fail) -> Value {
    match f {
        Fail::None => json!(["none", 0]),
        Fail::ErrOnce(j) => json!(["err_once", j]),
        Fail::ErrOnceKind(j, k) => json!(["err_once_kind", j, k]),
        Fail::ErrFrom(j) => json!(["err_from", j]),
        Fail::ZeroOnce(j) => json!(["zero_once", j]),
        Fail::PanicAt(j) => json!(["panic_at", j]),
        Fail::Stutter => json!(["stutter", 0]),
    }
}

fn op_json(op: &WOp) -> Value {
    match op {
        WOp::Write(l) => json!(["write", l]),
        WOp::WriteAll(l) => json!(["write_all", l]),
        WOp::WriteDefer(l) => json!(["write_all_defer_err", l]),
        WOp::Digits(t, v) => json!(["ascii_digits", t, v, INT_TYPES[*t as usize]]),
        WOp::Ptr(l) => json!(["buf_write_ptr", l.to_string()]),
        WOp::PtrPartial(l, u) => json!(["buf_write_ptr_partial", l, u]),
        WOp::Flush => json!(["flush"]),
        WOp::FlushDefer => json!(["flush_defer_err"]),
        WOp::Check => json!(["check_io_error"]),
    }
}

fn op_from_json(v: &Value) -> WOp {
    let a = |i: usize| v[i].as_u64().unwrap() as usize;
    match v[0].as_str().unwrap() {
        "write" => WOp::Write(a(1)),
        "write_all" => WOp::WriteAll(a(1)),
        "write_all_defer_err" => WOp::WriteDefer(a(1)),
        "ascii_digits" => WOp::Digits(a(1) as u8, a(2) as u8),
        "buf_write_ptr_partial" => WOp::PtrPartial(a(1), a(2)),
        "buf_write_ptr" => WOp::Ptr(v[1].as_str().map_or_else(|| a(1), |t| t.parse().unwrap())),
        "flush" => WOp::Flush,
        "flush_defer_err" => WOp::FlushDefer,
        "check_io_error" => WOp::Check,
        o => panic!("unknown op {o}"),
    }
}

pub fn replay_value(cfg: &Cfg, mode: Mode, hist: &[Step], e: Epilogue) -> Value {
    json!({
        "property": prop_name(mode),
        "subject": "DeferredWriter",
        "cfg": {"capacity": cfg.capacity, "fail": fail_json(cfg.fail), "interrupts": cfg.interrupts, "short_writes": cfg.short_writes},
        "epilogue": format!("{e:?}"),
        "history": hist.iter().map(|s| json!({"op": op_json(&s.op), "choices": s.choices.iter().map(|(c, n)| json!([c, n])).collect::<Vec<_>>() })).collect::<Vec<_>>(),
    })
}

fn expand(cfg: &Cfg, mode: Mode, tier: Tier, hist: &Vec<Step>, report: &mut Report) -> Vec<(Vec<Step>, Vec<u8>)> {
    let w = replay(cfg, hist, &[]);
    let ops = alphabet(cfg, mode, &w, tier);
    drop(w);
    let mut succ = Vec::new();
    for op in ops {
        for e in [Epilogue::FlushThenDrop, Epilogue::DropOnly, Epilogue::DropWhileUnwinding] {
            // a sink that is scripted to panic would turn the unwinding drop into a double panic
            if e == Epilogue::DropWhileUnwinding && matches!(cfg.fail, Fail::PanicAt(_)) {
                continue;
            }
            // every sequence of sink answers for the small capacity; at most two departures from
            // "accept everything" per transition for the large ones (the tree is exponential in the
            // number of sink calls otherwise)
            let bound = if cfg.capacity == Some(8) { None } else { Some(2) };
            let r = explore(
                bound,
                |prefix| {
                    let t = transition(cfg, mode, hist, &op, &prefix, e);
                    if let Some(d) = t.diverged {
                        return Err(d);
                    }
                    report.evaluations += 1;
                    report.transitions += 1;
                    if t.cold_path {
                        report.count("transitions_through_cold_path_or_write_through", 1);
                        report.nontrivial += 1;
                    }
                    if t.digits_near_end {
                        report.count("integer_writes_with_less_than_40_bytes_free", 1);
                    }
                    let mut h2 = hist.clone();
                    h2.push(Step { op: op.clone(), choices: t.taken.clone() });
                    let mut bad = false;
                    for (cat, what) in &t.problems {
                        if category_reported(mode, cat) {
                            bad = true;
                            let key = format!("writer/{}/{}", op_class(&op), cat);
                            report.violation_with(&key, (h2.len() * 1000 + forced_of(&h2).len()) as u64, || {
                                (format!("after {} earlier operation(s), {op:?} [capacity {:?}, sink {:?}, epilogue {e:?}]: {what}", hist.len(), cfg.capacity, cfg.fail), replay_value(cfg, mode, &h2, e))
                            });
                        }
                    }
                    report.outcome(format!("{}:{}", op_class(&op), t.problems.len()));
                    if !bad && e == Epilogue::FlushThenDrop {
                        succ.push((h2, t.key));
                    }
                    Ok(t.taken_all)
                },
                || false,
            );
            if let Err(e) = r {
                report.machinery_errors.push(format!("writer_mc: nondeterministic replay: {e}"));
            }
        }
    }
    succ
}

pub fn configs(mode: Mode, tier: Tier) -> Vec<(Cfg, usize)> {
    // (configuration, depth bound; usize::MAX = to closure)
    let mut v = Vec::new();
    let caps: &[usize] = tier.pick(&[8, 48][..], &[8, 13, 48][..]);
    let fails: Vec<Fail> = if mode == Mode::C14 {
        vec![Fail::None, Fail::PanicAt(0), Fail::PanicAt(1), Fail::ErrOnce(0)]
    } else {
        let mut f = vec![Fail::None];
        for j in 0..tier.pick(3, 5) {
            f.push(Fail::ErrOnce(j));
            f.push(Fail::ErrFrom(j));
            f.push(Fail::ZeroOnce(j));
        }
        f.push(Fail::PanicAt(0));
        f.push(Fail::PanicAt(1));
        f.push(Fail::Stutter);
        // other error kinds: UnexpectedEof, WouldBlock, BrokenPipe, WriteZero
        for k in [1u8, 2, 4, 13] {
            f.push(Fail::ErrOnceKind(1, k));
        }
        f
    };
    for &c in caps {
        for &fail in &fails {
            for (interrupts, short_writes) in [(0u32, false), (1, true)] {
                if tier == Tier::Quick && interrupts > 0 && !matches!(fail, Fail::None | Fail::ErrOnce(1)) {
                    continue;
                }
                // the larger capacity (integer fast path next to the end of the buffer) in the quick
                // tier: accepting sink and one failing sink only
                if tier == Tier::Quick && c != 8 && !(interrupts == 0 && matches!(fail, Fail::None | Fail::ErrOnce(1))) {
                    continue;
                }
                v.push((Cfg { capacity: Some(c), fail, interrupts, short_writes }, usize::MAX));
            }
        }
    }
    // regime (ii): the public constructor (16 KiB), threshold length classes, bounded depth
    let depth = tier.pick(3, 5);
    for &fail in &[Fail::None, Fail::ErrOnce(0), Fail::ErrOnce(1)] {
        v.push((Cfg { capacity: None, fail, interrupts: 0, short_writes: false }, depth));
    }
    v
}

pub fn run(mode: Mode, tier: Tier, report: &mut Report) {
    let cfgs = configs(mode, tier);
    let budget = Budget::new(tier.pick(40.0, 1500.0));
    let results = mc_core::par::par_map(cfgs.len(), mc_core::threads(), |i| {
        let (cfg, depth) = &cfgs[i];
        let mut local = Report::new();
        let w = build(cfg, vec![]);
        let k0 = key_of(cfg, &w);
        drop(w);
        let res = bfs(vec![(Vec::<Step>::new(), k0)], |h, rep| expand(cfg, mode, tier, h, rep), 2_000_000, *depth, &budget, 1, &mut local);
        if *depth != usize::MAX {
            // a depth bound is a stated bound, not a cap that was hit unexpectedly
            local.caps.retain(|c| !c.starts_with("bfs depth cap"));
            local.not_exhaustive = !local.caps.is_empty();
        }
        (local, res)
    });
    let mut closed = 0;
    for (i, (local, res)) in results.into_iter().enumerate() {
        report.merge(local);
        report.states += res.states;
        if res.closed {
            closed += 1;
        }
        report.notes.push(format!("{:?} depth bound {}: {} states, {} transitions, depth {}, closed={}", cfgs[i].0, if cfgs[i].1 == usize::MAX { "none".to_string() } else { cfgs[i].1.to_string() }, res.states, res.transitions, res.depth, res.closed));
    }
    report.count("writer_configurations", cfgs.len() as u64);
    report.count("writer_configurations_closed", closed);
    report.traces = report.transitions;
    let (cfg, _) = &cfgs[0];
    report.sample(replay_value(cfg, mode, &[Step { op: WOp::WriteDefer(5), choices: vec![] }, Step { op: WOp::Digits(4, 5), choices: vec![] }, Step { op: WOp::WriteDefer(9), choices: vec![] }], Epilogue::DropOnly));
    let (cfg, _) = &cfgs[cfgs.len() / 2];
    report.sample(replay_value(cfg, mode, &[Step { op: WOp::WriteDefer(17), choices: vec![] }, Step { op: WOp::Ptr(3), choices: vec![] }, Step { op: WOp::Flush, choices: vec![] }, Step { op: WOp::Check, choices: vec![] }], Epilogue::FlushThenDrop));
}

pub fn replay_file(v: &Value) -> (bool, String) {
    let mode = if v["property"] == "C11" { Mode::C11 } else { Mode::C14 };
    let f = &v["cfg"]["fail"];
    let j = f[1].as_u64().unwrap_or(0) as u32;
    let fail = match f[0].as_str().unwrap() {
        "none" => Fail::None,
        "err_once" => Fail::ErrOnce(j),
        "err_once_kind" => Fail::ErrOnceKind(j, v["cfg"]["fail"][2].as_u64().unwrap_or(0) as u8),
        "err_from" => Fail::ErrFrom(j),
        "zero_once" => Fail::ZeroOnce(j),
        "stutter" => Fail::Stutter,
        _ => Fail::PanicAt(j),
    };
    let cfg = Cfg {
        capacity: v["cfg"]["capacity"].as_u64().map(|c| c as usize),
        fail,
        interrupts: v["cfg"]["interrupts"].as_u64().unwrap() as u32,
        short_writes: v["cfg"]["short_writes"].as_bool().unwrap(),
    };
    let e = if v["epilogue"] == "DropOnly" {
        Epilogue::DropOnly
    } else if v["epilogue"] == "DropWhileUnwinding" {
        Epilogue::DropWhileUnwinding
    } else {
        Epilogue::FlushThenDrop
    };
    let hist: Vec<Step> = v["history"].as_array().unwrap().iter().map(|s| Step {
        op: op_from_json(&s["op"]),
        choices: s["choices"].as_array().unwrap().iter().map(|c| (c[0].as_u64().unwrap() as u32, c[1].as_u64().unwrap() as u32)).collect(),
    }).collect();
    let mut text = format!("DeferredWriter, {cfg:?}, epilogue {e:?}\n");
    let mut violated = false;
    for i in 0..hist.len() {
        let t = transition(&cfg, mode, &hist[..i], &hist[i].op, &hist[i].choices, e);
        let t2 = transition(&cfg, mode, &hist[..i], &hist[i].op, &hist[i].choices, e);
        if format!("{:?}", t.problems) != format!("{:?}", t2.problems) || t.key != t2.key {
            text.push_str("  NONDETERMINISTIC REPLAY\n");
        }
        text.push_str(&format!("  {:2}. {:?} sink answers {:?}\n", i + 1, hist[i].op, t.taken.iter().map(|c| c.0).collect::<Vec<_>>()));
        for (cat, what) in &t.problems {
            if category_reported(mode, cat) {
                violated = true;
                text.push_str(&format!("      {cat}: {what}\n"));
            }
        }
    }
    (violated, text)
}

pub const RULE: &str = "explicit-state BFS per configuration (hook constructor with capacity 8 / 48 searched to closure with EVERY write length 0..=3*capacity; public 16 KiB constructor with threshold length classes to a depth bound) x sink script (accepting, error once / permanently / Ok(0) at write call 0..2, panic at call 0..1, short writes and Interrupted as choice points) over {write, write_all, write_all_defer_err, write::text::ascii_digits for 12 integer types x {0,1,-1,9,10,MIN,MAX}, buf_write_ptr+advance_unchecked, flush, flush_defer_err, check_io_error}, each transition with both epilogues (flush+drop, drop only); states deduplicated by hook state + sink script state (stream content is abstracted: data independence); non-trivial = the transition went through the cold path / write-through (the sink was called during a write)";

//! What the flussab AIGER parsers returned, flattened into the same canonical description the
//! reference reader produces (`refparse::Flat`).

use crate::refparse::Flat;
use crate::subjects::{end_of, LitName};
use flussab::text::LineReader;
use flussab::DeferredReader;
use flussab_aiger::aig::{Aig, OrderedAig, Symbol, SymbolTarget};
use flussab_aiger::{ascii, binary, Lit};
use mc_core::generic::Spec;
use mc_core::source::{ScriptedSource, SourceCfg};
use mc_core::subject::{catch, short_loc, End};

fn init_str(i: Option<bool>) -> String {
    match i {
        Some(false) => "0".into(),
        Some(true) => "1".into(),
        None => "x".into(),
    }
}

fn syms(symbols: &[Symbol]) -> Vec<(char, String, Vec<u8>)> {
    symbols
        .iter()
        .map(|s| {
            let (k, i) = match s.target {
                SymbolTarget::Input(i) => ('i', i),
                SymbolTarget::Output(i) => ('o', i),
                SymbolTarget::Latch(i) => ('l', i),
                SymbolTarget::BadStateProperty(i) => ('b', i),
                SymbolTarget::InvariantConstraint(i) => ('c', i),
                SymbolTarget::JusticeProperty(i) => ('j', i),
                SymbolTarget::FairnessConstraint(i) => ('f', i),
            };
            (k, i.to_string(), s.name.as_bytes().to_vec())
        })
        .collect()
}

pub fn flat_of_aig<L: Lit>(a: &Aig<L>) -> Flat {
    let c = |l: &L| l.code().to_string();
    let mut n: Vec<String> = Vec::new();
    n.extend(a.inputs.iter().map(c));
    for l in &a.latches {
        n.push(c(&l.state));
        n.push(c(&l.next_state));
        n.push(init_str(l.initialization));
    }
    n.extend(a.outputs.iter().map(c));
    n.extend(a.bad_state_properties.iter().map(c));
    n.extend(a.invariant_constraints.iter().map(c));
    n.extend(a.justice_properties.iter().map(|j| j.len().to_string()));
    for j in &a.justice_properties {
        n.extend(j.iter().map(c));
    }
    n.extend(a.fairness_constraints.iter().map(c));
    for g in &a.and_gates {
        n.push(c(&g.output));
        n.push(c(&g.inputs[0]));
        n.push(c(&g.inputs[1]));
    }
    Flat {
        header: vec![a.max_var_index, a.inputs.len(), a.latches.len(), a.outputs.len(), a.and_gates.len(), a.bad_state_properties.len(), a.invariant_constraints.len(), a.justice_properties.len(), a.fairness_constraints.len()]
            .iter()
            .map(|x| x.to_string())
            .collect(),
        numbers: n,
        symbols: syms(&a.symbols),
        comment: a.comment.as_ref().map(|c| c.as_bytes().to_vec()),
    }
}

pub fn flat_of_ordered<L: Lit>(a: &OrderedAig<L>) -> Flat {
    let c = |l: &L| l.code().to_string();
    let mut n: Vec<String> = Vec::new();
    for l in &a.latches {
        n.push(c(&l.next_state));
        n.push(init_str(l.initialization));
    }
    n.extend(a.outputs.iter().map(c));
    n.extend(a.bad_state_properties.iter().map(c));
    n.extend(a.invariant_constraints.iter().map(c));
    n.extend(a.justice_properties.iter().map(|j| j.len().to_string()));
    for j in &a.justice_properties {
        n.extend(j.iter().map(c));
    }
    n.extend(a.fairness_constraints.iter().map(c));
    for g in &a.and_gates {
        n.push(c(&g.inputs[0]));
        n.push(c(&g.inputs[1]));
    }
    Flat {
        header: vec![a.max_var_index, a.input_count, a.latches.len(), a.outputs.len(), a.and_gates.len(), a.bad_state_properties.len(), a.invariant_constraints.len(), a.justice_properties.len(), a.fairness_constraints.len()]
            .iter()
            .map(|x| x.to_string())
            .collect(),
        numbers: n,
        symbols: syms(&a.symbols),
        comment: a.comment.as_ref().map(|c| c.as_bytes().to_vec()),
    }
}

pub enum Parsed<L> {
    Ascii(Aig<L>),
    Binary(OrderedAig<L>),
}

/// Run the whole-file parser of flussab on `input`.
pub fn parse_with<L: LitName>(input: &[u8], binary_format: bool, spec: &Spec) -> Result<Parsed<L>, End> {
    let cfg = SourceCfg::new(input, spec.grain.clone()).fault_at(spec.fault_at);
    let (source, _st) = ScriptedSource::new(cfg, spec.forced.clone());
    let r = catch(|| {
        let mut reader = DeferredReader::from_read(source);
        if let Some(c) = spec.chunk {
            reader.set_chunk_size(c);
        }
        if binary_format {
            let p = binary::Parser::<L>::new(LineReader::new(reader), binary::Config::default()).map_err(end_of)?;
            p.parse().map(Parsed::Binary).map_err(end_of)
        } else {
            let p = ascii::Parser::<L>::new(LineReader::new(reader), ascii::Config::default()).map_err(end_of)?;
            p.parse().map(Parsed::Ascii).map_err(end_of)
        }
    });
    match r {
        Ok(r) => r,
        Err((msg, loc)) => Err(End::Panic { msg, loc: short_loc(&loc) }),
    }
}

pub fn flat_with<L: LitName>(input: &[u8], binary_format: bool, spec: &Spec) -> Result<Flat, End> {
    parse_with::<L>(input, binary_format, spec).map(|p| match p {
        Parsed::Ascii(a) => flat_of_aig(&a),
        Parsed::Binary(a) => flat_of_ordered(&a),
    })
}

pub fn max_code_of(lit: &str) -> String {
    match lit {
        "u8" => u8::MAX.to_string(),
        "u16" => u16::MAX.to_string(),
        "u32" => u32::MAX.to_string(),
        _ => usize::MAX.to_string(),
    }
}

pub fn flat_dyn(lit: &str, input: &[u8], binary_format: bool, spec: &Spec) -> Result<Flat, End> {
    match lit {
        "u8" => flat_with::<u8>(input, binary_format, spec),
        "u16" => flat_with::<u16>(input, binary_format, spec),
        "u32" => flat_with::<u32>(input, binary_format, spec),
        "u64" => flat_with::<u64>(input, binary_format, spec),
        "usize" => flat_with::<usize>(input, binary_format, spec),
        other => panic!("unknown literal type {other}"),
    }
}

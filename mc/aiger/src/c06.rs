//! C06 — accepted input means what it says (AIGER): whatever flussab accepts, the independent
//! reference reader must accept too and read the same numbers.

use crate::flat::{flat_dyn, max_code_of};
use crate::refparse;
use mc_core::generic::{dedup_docs, Doc, Spec};
use mc_core::report::Report;
use mc_core::{hex, json, show, unhex, Tier};

fn is_num(t: &[u8]) -> bool {
    !t.is_empty() && t.iter().all(|c| c.is_ascii_digit())
}

/// Base documents x every numeric token x boundary replacement values.
pub fn boundary_docs(format: &str, lit: &str) -> Vec<Doc> {
    let mc: u128 = max_code_of(lit).parse().unwrap();
    let mmax = (mc - 1) / 2;
    let bases: Vec<Vec<u8>> = match format {
        "aag" => vec![
            b"aag 4 1 1 1 1 1 1 1 1\n2\n4 6 4\n7\n3\n5\n1\n9\n8\n6 2 4\ni0 a\nl0 b\no0 c\nb0 d\nc0 e\nj0 f\nf0 g\nc\ncomment\n".to_vec(),
            b"aag 2 1 0 2 1\n2\n4\n5\n4 2 3\no1 x\n".to_vec(),
            format!("aag {mmax} 1 0 1 0\n2\n{}\n", 2 * mmax + 1).into_bytes(),
        ],
        _ => vec![
            b"aig 4 1 1 1 1 1 1 1 1\n6 4\n7\n3\n5\n1\n9\n8\n".to_vec(),
            b"aig 2 1 0 2 1\n4\n5\n".to_vec(),
            format!("aig {mmax} 1 0 1 0\n{}\n", 2 * mmax + 1).into_bytes(),
        ],
    };
    let tails: Vec<Vec<u8>> = match format {
        "aag" => vec![vec![], vec![], vec![]],
        _ => vec![b"\x02\x02i0 a\nl0 b\no0 c\nb0 d\nc0 e\nj0 f\nf0 g\nc\ncomment\n".to_vec(), b"\x02\x01o1 x\n".to_vec(), vec![]],
    };
    let mut values: Vec<String> = vec![0u128, 1, 2, 3, 4, 5, 6, 7, 8, 9, 10, 11, 254, 255, 256, 65534, 65535, 65536, (1 << 32) - 1, 1 << 32, mmax - 1, mmax, mmax + 1, 2 * mmax, 2 * mmax + 1, 2 * mmax + 2, mc, mc + 1, u64::MAX as u128, u64::MAX as u128 + 1]
        .iter()
        .map(|v| v.to_string())
        .collect();
    values.sort();
    values.dedup();
    let mut out = Vec::new();
    for (base, tail) in bases.iter().zip(tails.iter()) {
        let mk = |text: &[u8]| {
            let mut v = text.to_vec();
            v.extend_from_slice(tail);
            v
        };
        out.push(Doc::new("base", mk(base)));
        // tokens of the text part
        let mut i = 0;
        while i < base.len() {
            if base[i].is_ascii_digit() && (i == 0 || !base[i - 1].is_ascii_alphanumeric()) {
                let s = i;
                while i < base.len() && base[i].is_ascii_digit() {
                    i += 1;
                }
                if is_num(&base[s..i]) {
                    for v in &values {
                        let mut t = base[..s].to_vec();
                        t.extend_from_slice(v.as_bytes());
                        t.extend_from_slice(&base[i..]);
                        out.push(Doc::new(format!("num@{s}={v}"), mk(&t)));
                    }
                }
            } else {
                i += 1;
            }
        }
        // symbol indices (digits directly after the kind letter)
        let full = mk(base);
        for k in 0..full.len().saturating_sub(2) {
            if (k == 0 || full[k - 1] == b'\n') && b"ilobcjf".contains(&full[k]) && full[k + 1].is_ascii_digit() && full[k + 2] == b' ' {
                for v in ["0", "1", "2", "18446744073709551615", "18446744073709551616"] {
                    let mut t = full[..k + 1].to_vec();
                    t.extend_from_slice(v.as_bytes());
                    t.extend_from_slice(&full[k + 2..]);
                    out.push(Doc::new(format!("symidx@{k}={v}"), t));
                }
            }
        }
        if format == "aig" && !tail.is_empty() {
            // binary deltas around the code they are subtracted from (1- and 2-byte codes)
            let gate_at = base.len();
            for d0 in 0..=14u8 {
                for d1 in 0..=14u8 {
                    let mut t = mk(base);
                    t[gate_at] = d0;
                    t[gate_at + 1] = d1;
                    out.push(Doc::new(format!("delta={d0},{d1}"), t));
                }
            }
            // 7-bit codes of every length 1..=11 with extreme first / middle / last groups, as first
            // and as second delta
            for len in 1..=11usize {
                for first in [0x80u8, 0x81, 0xff] {
                    for mid in [0x80u8, 0xff] {
                        for last in [0x00u8, 0x01, 0x02, 0x03, 0x40, 0x7f] {
                            let mut code = Vec::new();
                            for k in 0..len - 1 {
                                code.push(if k == 0 { first } else { mid });
                            }
                            code.push(last);
                            for as_first in [true, false] {
                                let mut t = base.clone();
                                if as_first {
                                    t.extend_from_slice(&code);
                                    t.push(0x00);
                                } else {
                                    t.push(0x00);
                                    t.extend_from_slice(&code);
                                }
                                t.extend_from_slice(&tail[2..]);
                                out.push(Doc::new("varint", t));
                            }
                        }
                    }
                }
            }
            for extra in [&[0x80u8, 0x01][..], &[0x8c, 0x00][..], &[0xff, 0xff, 0xff, 0xff, 0xff, 0xff, 0xff, 0xff, 0xff, 0x01][..], &[0x80, 0x80, 0x80, 0x80, 0x80, 0x80, 0x80, 0x80, 0x80, 0x80, 0x00][..]] {
                let mut t = base.clone();
                t.extend_from_slice(extra);
                t.push(0x01);
                t.extend_from_slice(&tail[2..]);
                out.push(Doc::new("delta-multibyte", t));
            }
        }
    }
    dedup_docs(out)
}

fn reason_class(r: &str) -> String {
    r.split(|c: char| c.is_ascii_digit()).next().unwrap_or("").trim().replace(' ', "-")
}

pub fn judge(lit: &str, binary: bool, input: &[u8], spec: &Spec) -> (bool, Option<(String, String)>) {
    let got = flat_dyn(lit, input, binary, spec);
    let reference = refparse::parse(input, binary, &max_code_of(lit));
    match (got, reference) {
        (Ok(g), Ok(r)) => {
            if g == r {
                (true, None)
            } else {
                (true, Some(("value-mismatch".into(), format!("returned {g:?}, the text says {r:?}"))))
            }
        }
        (Ok(g), Err(why)) => (true, Some((format!("limit-violated/{}", reason_class(&why)), format!("accepted (as {:?}) although {why}", g.header))),),
        (Err(mc_core::subject::End::Panic { msg, loc }), _) => (false, Some(("panic".into(), format!("panicked: {msg} @ {loc}")))),
        (Err(_), _) => (false, None),
    }
}

/// The header is data the parser hands out (`header()`, before anything else is read): whenever the
/// parser constructor accepts it, its numbers are the numbers of the first line and respect the
/// limits that only involve the header: 2M + 1 <= MAX_CODE and I + L + A <= M (as big integers).
pub fn header_meaning(format: &str, lit: &str, input: &[u8]) -> Option<String> {
    let ex = mc_core::generic::run_spec(crate::subjects::make(&format!("{format}-skip"), lit).as_ref(), input, &Spec::oneshot());
    let h = ex.items.first()?.strip_prefix("header ")?.to_string();
    let mut got: Vec<u128> = Vec::new();
    let mut cur = String::new();
    for c in h.chars().chain(std::iter::once(' ')) {
        if c.is_ascii_digit() {
            cur.push(c);
        } else if !cur.is_empty() {
            got.push(cur.parse().ok()?);
            cur.clear();
        }
    }
    if got.len() != 9 {
        return None;
    }
    let line = input.split(|b| *b == b'\n').next()?;
    let toks: Vec<&[u8]> = line.split(|b| *b == b' ').collect();
    let mut want: Vec<u128> = Vec::new();
    for t in toks.iter().skip(1) {
        let t = std::str::from_utf8(t).ok()?;
        want.push(t.parse().ok()?);
    }
    while want.len() < 9 {
        want.push(0);
    }
    if want != got {
        return Some(format!("the header handed out is {got:?}, the first line says {want:?}"));
    }
    let max_code: u128 = max_code_of(lit).parse().ok()?;
    let (m, i, l, a) = (got[0], got[1], got[2], got[4]);
    if 2 * m + 1 > max_code {
        return Some(format!("header accepted although 2M + 1 = {} exceeds the largest literal code {max_code}", 2 * m + 1));
    }
    if i + l + a > m {
        return Some(format!("header accepted although I + L + A = {i} + {l} + {a} exceeds M = {m}"));
    }
    None
}

/// Partial consumption of the streaming API (see subjects::AagMixed): first deviation, if any.
pub fn partial_sections(format: &str, lit: &str, input: &[u8]) -> Option<(u8, String)> {
    use crate::subjects::{make, mixed_expected, mixed_limits, MIXED_MODES};
    let full = mc_core::generic::run_spec(make(&format!("{format}-stream"), lit).as_ref(), input, &Spec::oneshot());
    if !matches!(full.end, mc_core::subject::End::Clean) {
        return None;
    }
    for mode in 0..MIXED_MODES {
        if format == "aig" && (mode == 0 || mode == 10) {
            continue; // the binary format has no input section
        }
        let ex = mc_core::generic::run_spec(make(&format!("{format}-mixed{mode}"), lit).as_ref(), input, &Spec::oneshot());
        let want = mixed_expected(&full.items, &mixed_limits(mode));
        if !matches!(ex.end, mc_core::subject::End::Clean) {
            return Some((mode, format!("the complete stream ends cleanly, the partial consumption ends with {}", ex.end.short())));
        }
        if ex.items != want {
            let i = ex.items.iter().zip(want.iter()).position(|(a, b)| a != b).unwrap_or(ex.items.len().min(want.len()));
            return Some((mode, format!("item #{i} is {:?}, the complete stream hands out {:?} for the same entry", ex.items.get(i), want.get(i))));
        }
    }
    None
}

pub fn run(tier: Tier, report: &mut Report, family_docs: &dyn Fn(&str) -> Vec<Doc>) {
    let lits: Vec<&str> = { let _ = tier; crate::subjects::LITS.to_vec() };
    for format in ["aag", "aig"] {
        let binary = format == "aig";
        let fam = family_docs(format);
        for lit in &lits {
            let mut docs = boundary_docs(format, lit);
            docs.extend(crate::gen::header_docs(format));
            let n_boundary = docs.len();
            docs.extend(fam.iter().cloned());
            let docs = dedup_docs(docs);
            let total = mc_core::par::par_fold(
                docs.len(),
                mc_core::threads(),
                Report::new,
                |acc, i| {
                    let input = &docs[i].bytes;
                    acc.states += 1;
                    for spec in [Spec::oneshot(), Spec::uniform(1, None)] {
                        acc.evaluations += 1;
                        acc.transitions += 1;
                        let (accepted, verdict) = judge(lit, binary, input, &spec);
                        if matches!(spec.grain, mc_core::source::Grain::OneShot) {
                            if let Some(why) = header_meaning(format, lit, input) {
                                let key = format!("{format}/accepted-meaning/header");
                                acc.violation_with(&key, input.len() as u64, || (format!("{format} parser <{lit}> on {:?}: {why}", show(input)), json!({"property": "C06", "format": format, "lit": lit, "input_hex": hex(input), "input": show(input), "spec": spec.to_json(), "header_only": true})));
                            }
                        }
                        if accepted {
                            acc.nontrivial += 1;
                            acc.count("accepted", 1);
                            // the staged streaming API with PARTIAL consumption of the sections
                            // (skipped, or left after one entry): what it hands out must be what the
                            // complete stream hands out for the same entries
                            if matches!(spec.grain, mc_core::source::Grain::OneShot) {
                                if let Some((mode, why)) = partial_sections(format, lit, input) {
                                    let key = format!("{format}/accepted-meaning/partial-sections");
                                    acc.violation_with(&key, input.len() as u64, || (format!("{format} streaming parser <{lit}> on {:?}, consumption mode {mode}: {why}", show(input)), json!({"property": "C06", "format": format, "lit": lit, "input_hex": hex(input), "input": show(input), "spec": spec.to_json(), "partial_mode": mode})));
                                }
                                acc.count("partial_consumption_runs", crate::subjects::MIXED_MODES as u64);
                            }
                        } else {
                            acc.count("rejected", 1);
                            if refparse::parse(input, binary, &max_code_of(lit)).is_ok() {
                                acc.count("rejected_although_the_reference_reader_accepts (not judged here, see C03)", 1);
                                if std::env::var_os("MC_DEBUG_REF").is_some() {
                                    eprintln!("REFACCEPTS {format} {lit} {:?} -> {:?}", show(input), flat_dyn(lit, input, binary, &spec).err().map(|e| e.short()));
                                }
                            }
                        }
                        acc.outcome(format!("{format}:{accepted}:{}", verdict.as_ref().map_or("ok", |v| &v.0)));
                        if matches!(&verdict, Some((k, _)) if k == "panic") {
                            // nothing was accepted: a panic is C05's question, not C06's
                            acc.count("executions_that_panicked (not judged here, see C05)", 1);
                            continue;
                        }
                        if let Some((k, why)) = verdict {
                            let key = format!("{format}/accepted-meaning/{k}");
                            acc.violation_with(&key, input.len() as u64, || (format!("{format} parser <{lit}> on {:?} [{}]: {why}", show(input), spec.describe()), json!({"property": "C06", "format": format, "lit": lit, "input_hex": hex(input), "input": show(input), "spec": spec.to_json()})));
                        }
                    }
                },
                |a, b| a.merge(b),
            );
            report.merge(total);
            report.completed.push(format!("{format}<{lit}>: {n_boundary} boundary documents (every numeric token of 3 base documents x boundary values, symbol indices, binary deltas) + {} family documents, x {{one-shot, byte-wise}}", fam.len()));
        }
    }
    report.traces = report.evaluations;
    let d = boundary_docs("aag", "u8");
    report.sample(json!({"format": "aag", "lit": "u8", "document": show(&d[d.len() / 3].bytes), "name": d[d.len() / 3].name}));
}

pub fn replay(v: &mc_core::Value) -> (bool, String) {
    let input = unhex(v["input_hex"].as_str().unwrap());
    let lit = v["lit"].as_str().unwrap();
    let binary = v["format"] == "aig";
    let spec = Spec::from_json(&v["spec"]);
    if v["header_only"].as_bool().unwrap_or(false) {
        let why = header_meaning(v["format"].as_str().unwrap(), lit, &input);
        return (why.is_some(), format!("{} parser <{lit}> on {:?}\n  {}\n", v["format"].as_str().unwrap(), show(&input), why.unwrap_or_else(|| "the header handed out is the first line's and respects its own limits".to_string())));
    }
    if let Some(mode) = v["partial_mode"].as_u64() {
        let r = partial_sections(v["format"].as_str().unwrap(), lit, &input);
        return (r.is_some(), format!("{} streaming parser <{lit}> on {:?} (first recorded mode {mode})\n  {:?}\n", v["format"].as_str().unwrap(), show(&input), r));
    }
    let (accepted, verdict) = judge(lit, binary, &input, &spec);
    let text = format!(
        "{} parser <{lit}> on {:?}\n  flussab: {:?}\n  reference reader: {:?}\n  {}\n",
        v["format"].as_str().unwrap(),
        show(&input),
        flat_dyn(lit, &input, binary, &spec).map_err(|e| e.short()),
        refparse::parse(&input, binary, &max_code_of(lit)),
        verdict.as_ref().map_or(if accepted { "accepted, same meaning".to_string() } else { "rejected".to_string() }, |(k, w)| format!("{k}: {w}"))
    );
    (verdict.as_ref().map_or(false, |(k, _)| k != "panic"), text)
}

pub const RULE: &str = "AIGER ascii and binary x literal types: boundary documents (every numeric token of three base documents replaced by {0..11, 254..256, 65534..65536, 2^32-1, 2^32, M_max-1..M_max+1, 2M_max..2M_max+2, MAX_CODE, MAX_CODE+1, 2^64-1, 2^64}; every symbol index by {0,1,2,2^64-1,2^64}; binary deltas 0..14 x 0..14 and multi-byte codes) plus every document of the C01 families, x {one-shot, byte-wise}; whenever flussab's parse() accepts, an independent reference reader (format rules: 2M+1 <= MAX_CODE, I+L+A <= M, literals <= 2M+1, defined literals even and non-zero, section sizes = header counts, latch reset in {0,1,own}, symbol index < section size, delta <= code, UTF-8 names, comment ends with newline) must accept and read identical numbers (big decimals), symbols and comment. Non-trivial = accepted documents";

#!/bin/bash
# Development aid: confirm one seeded change in its scratch worktree.
#   confirm_seed.sh <worktree> <SEED subdir> <property id> <seed number>
# Applies patch.diff, runs the workspace suite (baseline must stay green), places demo.rs where its
# first line says, runs it with and without the patch, prints one CONFIRM line, restores the worktree.
W=$1; S=$2; ID=$3; N=$4
cd $W || exit 2
git checkout -q -- . ; git clean -fdq -e SEED -e PROPERTY.txt -e target
place=$(head -1 $S/demo.rs | grep -o 'Place at: *[^ ]*' | sed 's/Place at: *//; s/;$//')
crate=$(head -1 $S/demo.rs | grep -o '\-p *[^ ]*' | head -1 | sed 's/-p *//')
name=$(basename $place .rs)
count() { awk '/^test result/ {p+=$4; f+=$6} END {printf "%d/%d", p, f}'; }
git apply $S/patch.diff || { echo "CONFIRM id=$ID n=$N APPLY-FAIL"; exit 1; }
base=$(cargo test --workspace --offline 2>&1 | count)
mkdir -p $(dirname $place); cp $S/demo.rs $place
with=$(cargo test --offline -p $crate --test $name 2>&1 | count)
git checkout -q -- .
without=$(cargo test --offline -p $crate --test $name 2>&1 | count)
rm -f $place; git clean -fdq -e SEED -e PROPERTY.txt -e target
echo "id=$ID n=$N place=$place baseline_with_patch(pass/fail)=$base demo_with_patch=$with demo_without_patch=$without"

//! Turning a process abort into a verdict.
//!
//! In the checked profile the standard library's unsafe-precondition checks (`get_unchecked` out
//! of range, `Vec::set_len` beyond the capacity, ...) do not unwind: they abort the process. A
//! mutated flussab that trips one would therefore kill the harness (exit 2 = no verdict). Before
//! running a case, the harness registers a closure that can describe the case; a SIGABRT / SIGSEGV
//! / SIGBUS / SIGILL handler calls it, writes a minimal report containing exactly that violation to
//! the `--out` file and ends the process with status 0, so the driver reports it like any other
//! violation (with a replay file).

use serde_json::{json, Value};
use std::cell::Cell;
use std::sync::OnceLock;

type Describe<'a> = dyn Fn() -> (String, String, Value) + 'a;

thread_local! {
    static CURRENT: Cell<Option<*const Describe<'static>>> = const { Cell::new(None) };
}

struct Ctx {
    out: Option<String>,
    property: String,
    part: String,
    tier: String,
}

static CTX: OnceLock<Ctx> = OnceLock::new();

extern "C" {
    fn signal(sig: i32, handler: usize) -> usize;
    fn _exit(code: i32) -> !;
}

extern "C" fn on_fatal_signal(sig: i32) {
    let name = match sig {
        6 => "SIGABRT (abort: unsafe precondition check / allocation failure / double panic)",
        11 => "SIGSEGV",
        7 => "SIGBUS",
        4 => "SIGILL",
        _ => "fatal signal",
    };
    let desc = CURRENT.with(|c| c.get());
    let (key, what, replay) = match desc {
        Some(p) => unsafe { (*p)() },
        None => ("harness/abort-outside-any-case".to_string(), "the process received a fatal signal outside any registered case".to_string(), Value::Null),
    };
    let mut replay = replay;
    if let (Some(ctx), Some(obj)) = (CTX.get(), replay.as_object_mut()) {
        obj.insert("property".into(), json!(ctx.property));
    }
    if let Some(ctx) = CTX.get() {
        let machinery: Vec<String> = if desc.is_none() { vec![format!("fatal signal {name} outside any registered case")] } else { vec![] };
        let v = json!({
            "property": ctx.property, "part": ctx.part, "tier": ctx.tier, "build": crate::build_profile(), "wall_s": 0.0,
            "evaluations": 1, "states": 1, "transitions": 1, "traces_validated_against_impl": 1, "distinct_nontrivial": 0,
            "rule": "run ended by a fatal signal; only the case that was executing is reported",
            "counters": {}, "maxima": {}, "distinct_outcomes": 1, "outcome_examples": [], "samples": [replay.clone()],
            "exhaustive": false, "caps_hit": [format!("run ended by {name}")], "completed": [], "notes": [],
            "violation_count": 1,
            "violations": [{"key": format!("{key}/process-abort"), "what": format!("{what}: the process was ended by {name}"), "replay": replay, "count": 1}],
            "machinery_errors": machinery,
        });
        let s = serde_json::to_string_pretty(&v).unwrap_or_default();
        match &ctx.out {
            Some(p) => {
                let _ = std::fs::write(p, s);
            }
            None => println!("{s}"),
        }
    }
    unsafe { _exit(if desc.is_some() { 0 } else { 134 }) }
}

/// Install the handlers (once per process, from main).
pub fn install(out: Option<String>, property: &str, part: &str, tier: &str) {
    let _ = CTX.set(Ctx { out, property: property.to_string(), part: part.to_string(), tier: tier.to_string() });
    unsafe {
        for sig in [6, 11, 7, 4] {
            signal(sig, on_fatal_signal as usize);
        }
    }
}

pub struct Guard {
    prev: Option<*const Describe<'static>>,
}

impl Drop for Guard {
    fn drop(&mut self) {
        CURRENT.with(|c| c.set(self.prev));
    }
}

/// Register the description of the case that is about to run on this thread.
pub fn enter<'a>(describe: &'a Describe<'a>) -> Guard {
    let p: *const Describe<'a> = describe;
    let p: *const Describe<'static> = unsafe { std::mem::transmute(p) };
    let prev = CURRENT.with(|c| c.replace(Some(p)));
    Guard { prev }
}

//! Process isolation for sweeps over untrusted inputs (C05, C12): a case that aborts the process
//! (allocation failure, stack overflow), exhausts memory or never returns must become a *verdict*
//! for that case, not a crash of the harness.
//!
//! The parent re-executes its own binary as W single-threaded worker processes (same arguments,
//! `MC_WORKER=k/W/start`), each under an address-space limit. A worker processes the units
//! `start + k, start + k + W, ...` of the deterministic unit list, announces every unit in a marker
//! file before it runs it, dumps its partial report periodically and at the end. If a worker dies or
//! its marker does not move for `stall_secs`, the parent records a violation for the announced unit
//! and restarts the worker after it.

use crate::report::Report;
use serde_json::{json, Value};
use std::io::{Read, Seek, SeekFrom, Write};
use std::path::PathBuf;
use std::process::{Child, Command, Stdio};
use std::time::{Duration, Instant};

pub struct Worker {
    pub k: usize,
    pub w: usize,
    pub start: usize,
    /// units that crashed an earlier incarnation of this worker
    pub skip: Vec<usize>,
    pub dir: PathBuf,
}

/// Some(worker spec) if this process is a worker.
pub fn worker_spec() -> Option<Worker> {
    let s = std::env::var("MC_WORKER").ok()?;
    let p: Vec<&str> = s.split('/').collect();
    let skip = p.get(3).map_or(vec![], |s| s.split(',').filter_map(|x| x.parse().ok()).collect());
    Some(Worker { k: p[0].parse().ok()?, w: p[1].parse().ok()?, start: p[2].parse().ok()?, skip, dir: PathBuf::from(std::env::var("MC_WORKER_DIR").ok()?) })
}

fn marker_path(dir: &PathBuf, k: usize) -> PathBuf {
    dir.join(format!("marker.{k}"))
}
fn dump_path(dir: &PathBuf, k: usize, gen: usize) -> PathBuf {
    dir.join(format!("report.{k}.{gen}.json"))
}

/// Serialise the parts of a report that the parent merges.
pub fn report_to_value(r: &Report) -> Value {
    json!({
        "evaluations": r.evaluations, "states": r.states, "transitions": r.transitions, "traces": r.traces, "nontrivial": r.nontrivial,
        "counters": r.counters, "maxima": r.maxima, "outcomes": r.outcomes, "samples": r.samples,
        "violations": r.violations.values().map(|v| json!({"key": v.key, "what": v.what, "replay": v.replay, "size": v.size, "count": v.count})).collect::<Vec<_>>(),
        "violation_count": r.violation_count, "caps": r.caps, "notes": r.notes, "completed": r.completed, "not_exhaustive": r.not_exhaustive, "machinery_errors": r.machinery_errors,
    })
}

pub fn report_from_value(v: &Value) -> Report {
    let mut r = Report::new();
    let u = |k: &str| v[k].as_u64().unwrap_or(0);
    r.evaluations = u("evaluations");
    r.states = u("states");
    r.transitions = u("transitions");
    r.traces = u("traces");
    r.nontrivial = u("nontrivial");
    if let Some(m) = v["counters"].as_object() {
        for (k, x) in m {
            r.counters.insert(k.clone(), x.as_u64().unwrap_or(0));
        }
    }
    if let Some(m) = v["maxima"].as_object() {
        for (k, x) in m {
            r.maxima.insert(k.clone(), x.as_u64().unwrap_or(0));
        }
    }
    for o in v["outcomes"].as_array().into_iter().flatten() {
        r.outcomes.insert(o.as_str().unwrap_or("").to_string());
    }
    for s in v["samples"].as_array().into_iter().flatten() {
        r.samples.push(s.clone());
    }
    for x in v["violations"].as_array().into_iter().flatten() {
        let key = x["key"].as_str().unwrap_or("").to_string();
        r.violations.insert(key.clone(), crate::report::Violation { key, what: x["what"].as_str().unwrap_or("").to_string(), replay: x["replay"].clone(), size: x["size"].as_u64().unwrap_or(0), count: x["count"].as_u64().unwrap_or(1) });
    }
    r.violation_count = u("violation_count");
    let strs = |k: &str| v[k].as_array().into_iter().flatten().map(|s| s.as_str().unwrap_or("").to_string()).collect::<Vec<_>>();
    r.caps = strs("caps");
    r.notes = strs("notes");
    r.completed = strs("completed");
    r.machinery_errors = strs("machinery_errors");
    r.not_exhaustive = v["not_exhaustive"].as_bool().unwrap_or(false);
    r
}

/// Worker side: run my share of the units.
pub fn run_worker(spec: &Worker, n_units: usize, mut run_unit: impl FnMut(usize, &mut Report), deadline: Option<Instant>) -> ! {
    let mut marker = std::fs::OpenOptions::new().create(true).write(true).truncate(false).open(marker_path(&spec.dir, spec.k)).expect("marker file");
    let mut report = Report::new();
    let mut last_dump = Instant::now();
    let mut gen = 0usize;
    let mut dump = |report: &Report, gen: &mut usize, next_unit: usize| {
        let mut v = report_to_value(report);
        v["next_unit"] = json!(next_unit);
        let tmp = spec.dir.join(format!("tmp.{}.json", spec.k));
        std::fs::write(&tmp, serde_json::to_vec(&v).unwrap()).unwrap();
        *gen += 1;
        std::fs::rename(&tmp, dump_path(&spec.dir, spec.k, *gen)).unwrap();
        if *gen > 1 {
            let _ = std::fs::remove_file(dump_path(&spec.dir, spec.k, *gen - 1));
        }
    };
    let mut i = spec.start;
    // first unit of this worker at or after `start`
    while i % spec.w != spec.k {
        i += 1;
    }
    while i < n_units {
        if deadline.map_or(false, |d| Instant::now() >= d) {
            report.cap(format!("time budget hit: worker {} stopped before unit {i} of {n_units}", spec.k));
            break;
        }
        if spec.skip.contains(&i) {
            i += spec.w;
            continue;
        }
        marker.seek(SeekFrom::Start(0)).unwrap();
        marker.write_all(&(i as u64 + 1).to_le_bytes()).unwrap();
        run_unit(i, &mut report);
        i += spec.w;
        if last_dump.elapsed() > Duration::from_millis(1500) {
            dump(&report, &mut gen, i);
            last_dump = Instant::now();
        }
    }
    marker.seek(SeekFrom::Start(0)).unwrap();
    marker.write_all(&0u64.to_le_bytes()).unwrap();
    dump(&report, &mut gen, usize::MAX);
    std::process::exit(0);
}

fn read_marker(dir: &PathBuf, k: usize) -> Option<usize> {
    let mut f = std::fs::File::open(marker_path(dir, k)).ok()?;
    let mut b = [0u8; 8];
    f.read_exact(&mut b).ok()?;
    let v = u64::from_le_bytes(b);
    if v == 0 {
        None
    } else {
        Some(v as usize - 1)
    }
}

fn latest_dump(dir: &PathBuf, k: usize) -> Option<Value> {
    let mut best: Option<(usize, PathBuf)> = None;
    for e in std::fs::read_dir(dir).ok()? {
        let p = e.ok()?.path();
        let name = p.file_name()?.to_str()?.to_string();
        if let Some(rest) = name.strip_prefix(&format!("report.{k}.")) {
            if let Some(g) = rest.strip_suffix(".json").and_then(|g| g.parse::<usize>().ok()) {
                if best.as_ref().map_or(true, |(bg, _)| g > *bg) {
                    best = Some((g, p.clone()));
                }
            }
        }
    }
    let (_, p) = best?;
    serde_json::from_slice(&std::fs::read(p).ok()?).ok()
}

pub struct Crash {
    pub unit: usize,
    pub how: String,
}

/// Parent side: run all units in isolated workers; returns the crashes (unit, how).
pub fn run_parent(n_units: usize, workers: usize, mem_limit_kb: u64, stall_secs: f64, report: &mut Report) -> Vec<Crash> {
    let exe = std::env::current_exe().expect("current exe");
    let args: Vec<String> = std::env::args().skip(1).collect();
    let dir = std::env::temp_dir().join(format!("mc-iso-{}-{}", std::process::id(), crate::fnv(format!("{args:?}").as_bytes())));
    let _ = std::fs::remove_dir_all(&dir);
    std::fs::create_dir_all(&dir).expect("isolation dir");
    let workers = workers.max(1).min(n_units.max(1));
    let spawn = |k: usize, start: usize, skip: &[usize]| -> Child {
        let _ = std::fs::remove_file(marker_path(&dir, k));
        let quoted: Vec<String> = std::iter::once(exe.display().to_string()).chain(args.iter().cloned()).map(|a| format!("'{}'", a.replace('\'', "'\\''"))).collect();
        Command::new("sh")
            .arg("-c")
            .arg(format!("ulimit -v {mem_limit_kb}; ulimit -c 0; exec {}", quoted.join(" ")))
            .env("MC_WORKER", format!("{k}/{workers}/{start}/{}", skip.iter().map(|x| x.to_string()).collect::<Vec<_>>().join(",")))
            .env("MC_WORKER_DIR", &dir)
            .env("MC_THREADS", "1")
            .stdout(Stdio::null())
            .stderr(Stdio::null())
            .spawn()
            .expect("cannot spawn worker")
    };
    struct Slot {
        child: Child,
        last_marker: Option<usize>,
        last_change: Instant,
        /// CPU seconds of the worker process when its marker last moved
        cpu_at_change: f64,
        merged_base: Report,
        start: usize,
        skip: Vec<usize>,
    }
    let mut slots: Vec<Option<Slot>> = (0..workers).map(|k| Some(Slot { child: spawn(k, 0, &[]), last_marker: None, last_change: Instant::now(), cpu_at_change: 0.0, merged_base: Report::new(), start: 0, skip: vec![] })).collect();
    let mut crashes = Vec::new();
    let mut done = 0;
    while done < workers {
        std::thread::sleep(Duration::from_millis(20));
        for k in 0..workers {
            let Some(slot) = slots[k].as_mut() else { continue };
            let m = read_marker(&dir, k);
            let cpu_now = crate::cputime::process_cpu_secs(slot.child.id());
            if m != slot.last_marker {
                slot.last_marker = m;
                slot.last_change = Instant::now();
                slot.cpu_at_change = cpu_now.unwrap_or(slot.cpu_at_change);
            }
            let status = slot.child.try_wait().expect("try_wait");
            // the limit is CPU time of the worker since it announced the unit (a loaded machine must
            // not turn "slow" into a verdict); a worker that neither finishes nor burns CPU for 30x
            // the limit in wall time is blocked, which is a hang as well
            let cpu_used = cpu_now.map_or(0.0, |c| c - slot.cpu_at_change);
            let stalled = status.is_none() && m.is_some() && (cpu_used > stall_secs || slot.last_change.elapsed().as_secs_f64() > 30.0 * stall_secs);
            if stalled {
                let _ = slot.child.kill();
                let _ = slot.child.wait();
            }
            match (status, stalled) {
                (Some(st), _) if st.success() => {
                    if let Some(v) = latest_dump(&dir, k) {
                        slot.merged_base.merge(report_from_value(&v));
                    } else {
                        report.machinery_errors.push(format!("isolated worker {k} finished without a report"));
                    }
                    let s = slots[k].take().unwrap();
                    report.merge(s.merged_base);
                    done += 1;
                }
                (None, false) => {}
                (st, _) => {
                    // died or stalled: the announced unit is the culprit
                    let how = if stalled { format!("did not finish within {stall_secs}s of CPU time (killed)") } else { format!("worker process died: {:?}", st.unwrap()) };
                    let (next, partial) = match latest_dump(&dir, k) {
                        Some(v) => (v["next_unit"].as_u64().map(|x| x as usize), Some(report_from_value(&v))),
                        None => (None, None),
                    };
                    match m {
                        Some(unit) => {
                            crashes.push(Crash { unit, how });
                            // keep what the worker had dumped and resume right after the dump,
                            // skipping the crashed unit(s)
                            if let (Some(n), Some(p)) = (next, partial) {
                                if n <= unit {
                                    slot.merged_base.merge(p);
                                    slot.start = n;
                                }
                            }
                            slot.skip.push(unit);
                            for f in std::fs::read_dir(&dir).into_iter().flatten().flatten() {
                                if f.file_name().to_string_lossy().starts_with(&format!("report.{k}.")) {
                                    let _ = std::fs::remove_file(f.path());
                                }
                            }
                            if crashes.len() > 64 {
                                report.cap("more than 64 isolated worker crashes: sweep stopped early (the crashes are reported as violations)");
                                let s = slots[k].take().unwrap();
                                report.merge(s.merged_base);
                                done += 1;
                                continue;
                            }
                            slot.child = spawn(k, slot.start, &slot.skip);
                            slot.last_marker = None;
                            slot.last_change = Instant::now();
                            slot.cpu_at_change = 0.0;
                        }
                        None => {
                            report.machinery_errors.push(format!("isolated worker {k} died outside any unit: {how}"));
                            let s = slots[k].take().unwrap();
                            report.merge(s.merged_base);
                            done += 1;
                        }
                    }
                }
            }
        }
    }
    let _ = std::fs::remove_dir_all(&dir);
    crashes
}

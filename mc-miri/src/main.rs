//! C14 memory-error monitor: the bodies of the reader / writer / scanner enumerations at reduced
//! bounds, meant to be executed under `cargo +nightly miri run`. Every enumerated history is one
//! concrete execution that miri checks for out-of-bounds and uninitialised accesses in the
//! `get_unchecked`, `copy_from_nonoverlapping`, `set_len` and raw 8-byte-load sites. The verdict
//! still comes from exhaustive enumeration (bounded); miri is the oracle on each execution.
//! Output: `CASE <n> <description>` before each case (so that the driver can name the culprit if
//! miri aborts), and a final `DONE {json}` line.

use flussab::text::LineReader;
use flussab::{text, DeferredReader, DeferredWriter};
use std::io::{self, Read, Write};
use std::panic::{catch_unwind, AssertUnwindSafe};

struct Src {
    data: Vec<u8>,
    pos: usize,
    grain: usize,
    /// claim more than given at this read call
    lie_at: Option<usize>,
    calls: usize,
}

impl Read for Src {
    fn read(&mut self, buf: &mut [u8]) -> io::Result<usize> {
        let c = self.calls;
        self.calls += 1;
        if self.lie_at == Some(c) {
            return Ok(buf.len() + 1);
        }
        let n = buf.len().min(self.grain).min(self.data.len() - self.pos);
        buf[..n].copy_from_slice(&self.data[self.pos..self.pos + n]);
        self.pos += n;
        Ok(n)
    }
}

fn stamp(i: usize) -> u8 {
    (i % 251) as u8 + 1
}

#[derive(Clone, Copy, Debug)]
enum ROp {
    Request(usize),
    ByteAt(usize),
    More,
    Adv(usize),
    AdvAll,
    AdvOver(usize),
    AdvMax,
    AdvBuf(usize),
    AdvBufOver,
    Mark,
    Chunk(usize),
}

const ROPS: [ROp; 13] = [ROp::Request(2), ROp::Request(7), ROp::ByteAt(1), ROp::More, ROp::Adv(1), ROp::AdvAll, ROp::AdvOver(1), ROp::AdvMax, ROp::AdvBuf(1), ROp::AdvBufOver, ROp::Mark, ROp::Chunk(1), ROp::Chunk(3)];

fn touch(r: &DeferredReader, stream: &[u8], stats: &mut Stats) {
    // SAFETY pre-check through the hook, then read every exposed byte
    let st = r.verif_state();
    match st.pos_in_buf.checked_add(st.valid_len) {
        Some(e) if e <= st.buf_len => {}
        _ => {
            stats.invariant_broken += 1;
            println!("VIOLATION invariant broken: {st:?}");
            return;
        }
    }
    let b = r.buf();
    let pos = r.position();
    let mut sum = 0u64;
    for (i, &x) in b.iter().enumerate() {
        sum += x as u64;
        if stream.get(pos + i) != Some(&x) {
            stats.content_wrong += 1;
        }
    }
    std::hint::black_box(sum);
}

#[derive(Default, Debug)]
struct Stats {
    cases: u64,
    ops: u64,
    caught_panics: u64,
    invariant_broken: u64,
    content_wrong: u64,
}

fn reader_histories(depth: usize, stats: &mut Stats) {
    for n in [0usize, 3, 6] {
        let stream: Vec<u8> = (0..n).map(stamp).collect();
        for chunk in [1usize, 2] {
            for grain in [1usize, 2] {
                for lie in [None, Some(0), Some(2)] {
                    let total = ROPS.len().pow(depth as u32);
                    for idx in 0..total {
                        let mut x = idx;
                        let mut hist = Vec::new();
                        for _ in 0..depth {
                            hist.push(ROPS[x % ROPS.len()]);
                            x /= ROPS.len();
                        }
                        stats.cases += 1;
                        if stats.cases % 500 == 1 {
                            println!("CASE {} reader n={n} chunk={chunk} grain={grain} lie={lie:?} {hist:?}", stats.cases);
                        }
                        let src = Src { data: stream.clone(), pos: 0, grain, lie_at: lie, calls: 0 };
                        let mut r = DeferredReader::from_read(src);
                        r.set_chunk_size(chunk);
                        let mut lenient = false;
                        for op in &hist {
                            stats.ops += 1;
                            let bl = r.buf_len();
                            let res = catch_unwind(AssertUnwindSafe(|| match *op {
                                ROp::Request(k) => {
                                    r.request(k);
                                }
                                ROp::ByteAt(k) => {
                                    r.request_byte_at_offset(k);
                                }
                                ROp::More => {
                                    r.request_more();
                                }
                                ROp::Adv(k) => r.advance(k.min(bl)),
                                ROp::AdvAll => r.advance(bl),
                                ROp::AdvOver(k) => r.advance(bl + k),
                                ROp::AdvMax => r.advance(usize::MAX),
                                ROp::AdvBuf(k) => {
                                    let s = r.advance_with_buf(k.min(bl));
                                    std::hint::black_box(s.iter().map(|&b| b as u64).sum::<u64>());
                                }
                                ROp::AdvBufOver => {
                                    let s = r.advance_with_buf(bl + 7);
                                    std::hint::black_box(s.len());
                                }
                                ROp::Mark => r.set_mark(),
                                ROp::Chunk(c) => r.set_chunk_size(c),
                            }));
                            if res.is_err() {
                                stats.caught_panics += 1;
                                lenient = true;
                            }
                            let before = stats.content_wrong;
                            touch(&r, &stream, stats);
                            if lenient || lie.is_some() {
                                // after a caught panic only memory safety is judged
                                stats.content_wrong = before;
                            }
                        }
                    }
                }
            }
        }
    }
}

fn scanners(stats: &mut Stats) {
    let texts: [&[u8]; 6] = [b"-12345678 9", b"123456789012345678901 ", b"00000000", b"-", b"12ab345678", b"\xb1234567\xff"];
    for t in texts {
        for offset in 0..=t.len() {
            for b in 0..=t.len() {
                stats.cases += 1;
                if stats.cases % 200 == 1 {
                    println!("CASE {} scanners {:?} offset {offset} buffered {b}", stats.cases, String::from_utf8_lossy(t));
                }
                let mk = |first: usize| {
                    let src = Src { data: t.to_vec(), pos: 0, grain: if first == 0 { usize::MAX } else { first }, lie_at: None, calls: 0 };
                    let mut r = DeferredReader::from_read(src);
                    // small chunks: zero-filling a 16 KiB buffer per case dominates under miri
                    r.set_chunk_size(32);
                    if first > 0 {
                        r.request(first);
                    }
                    r
                };
                let mut r = mk(b);
                std::hint::black_box(text::ascii_digits_multi::<u32>(&mut r, offset));
                let mut r = mk(b);
                std::hint::black_box(text::signed_ascii_digits_multi::<i64>(&mut r, offset));
                let mut r = mk(b);
                std::hint::black_box(text::signed_ascii_digits::<i8>(&mut r, offset));
                let mut r = mk(b);
                std::hint::black_box(text::ascii_digits::<u128>(&mut r, offset));
                let mut r = mk(b);
                std::hint::black_box(text::fixed(&mut r, offset, b"123"));
                stats.ops += 5;
            }
        }
    }
    // the BTOR2 keyword scanner (its own SWAR path) through the parser, every read grain
    let doc: &[u8] = b"1 sort bitvec 8\n2 constraint 1\n3 implies 1 2 2 sym ; c\n4 redxor 1 2\n5 justice 2 2 3\n; comment";
    for grain in [1usize, 7, 8, 9, 11] {
        for chunk in [1usize, 64] {
            stats.cases += 1;
            println!("CASE {} btor2 grain {grain} chunk {chunk}", stats.cases);
            let src = Src { data: doc.to_vec(), pos: 0, grain, lie_at: None, calls: 0 };
            let mut r = DeferredReader::from_read(src);
            r.set_chunk_size(chunk);
            let mut p = flussab_btor2::Parser::new(LineReader::new(r), flussab_btor2::Config::default()).unwrap();
            let mut n = 0;
            while let Ok(Some(l)) = p.next_line() {
                std::hint::black_box(&l);
                n += 1;
            }
            assert_eq!(n, 6);
            stats.ops += n;
        }
    }
}

struct Sink {
    log: Vec<u8>,
    calls: usize,
    fail_at: Option<usize>,
    panic_at: Option<usize>,
    short: bool,
}

impl Write for Sink {
    fn write(&mut self, buf: &[u8]) -> io::Result<usize> {
        let c = self.calls;
        self.calls += 1;
        if self.panic_at == Some(c) {
            panic!("sink panic");
        }
        if self.fail_at == Some(c) {
            return Err(io::Error::new(io::ErrorKind::Other, "sink failure"));
        }
        let k = if self.short && buf.len() > 1 { buf.len() - 1 } else { buf.len() };
        self.log.extend_from_slice(&buf[..k]);
        Ok(k)
    }
    fn flush(&mut self) -> io::Result<()> {
        Ok(())
    }
}

#[derive(Clone, Copy, Debug)]
enum WOp {
    Write(usize),
    DigitsMin,
    DigitsSmall,
    DigitsI8Min,
    DigitsU16Max,
    PtrFree,
    PtrOver,
    Flush,
    Check,
}

const WOPS: [WOp; 13] = [WOp::DigitsI8Min, WOp::DigitsU16Max, WOp::Write(0), WOp::Write(1), WOp::Write(7), WOp::Write(8), WOp::Write(9), WOp::Write(25), WOp::DigitsMin, WOp::DigitsSmall, WOp::PtrFree, WOp::PtrOver, WOp::Flush];

fn writer_histories(depth: usize, stats: &mut Stats) {
    for (fail_at, panic_at, short) in [(None, None, false), (None, None, true), (Some(0), None, false), (Some(1), None, true), (None, Some(0), false), (None, Some(1), false)] {
        let total = WOPS.len().pow(depth as u32);
        for idx in 0..total {
            let mut x = idx;
            let mut hist = Vec::new();
            for _ in 0..depth {
                hist.push(WOPS[x % WOPS.len()]);
                x /= WOPS.len();
            }
            hist.push(WOp::Check);
            stats.cases += 1;
            if stats.cases % 300 == 1 {
                println!("CASE {} writer fail={fail_at:?} panic={panic_at:?} short={short} {hist:?}", stats.cases);
            }
            let sink = Sink { log: vec![], calls: 0, fail_at, panic_at, short };
            let mut w = DeferredWriter::verif_with_capacity(Box::new(sink), 8);
            let mut pos = 0usize;
            for op in &hist {
                stats.ops += 1;
                let st = w.verif_state();
                let free = st.capacity - st.len;
                let res = catch_unwind(AssertUnwindSafe(|| match *op {
                    WOp::Write(n) => {
                        let data: Vec<u8> = (0..n).map(|i| stamp(pos + i)).collect();
                        pos += n;
                        w.write_all_defer_err(&data);
                    }
                    WOp::DigitsMin => flussab::write::text::ascii_digits(&mut w, i64::MIN),
                    WOp::DigitsSmall => flussab::write::text::ascii_digits(&mut w, 7u8),
                    WOp::DigitsI8Min => flussab::write::text::ascii_digits(&mut w, i8::MIN),
                    WOp::DigitsU16Max => flussab::write::text::ascii_digits(&mut w, u16::MAX),
                    WOp::PtrFree => {
                        let p = w.buf_write_ptr(free);
                        if !p.is_null() {
                            unsafe {
                                for i in 0..free {
                                    p.add(i).write(b'x');
                                }
                                w.advance_unchecked(free);
                            }
                        }
                    }
                    WOp::PtrOver => {
                        assert!(w.buf_write_ptr(free + 1).is_null());
                    }
                    WOp::Flush => {
                        let _ = w.flush();
                    }
                    WOp::Check => {
                        let _ = w.check_io_error();
                    }
                }));
                if res.is_err() {
                    stats.caught_panics += 1;
                }
                let st = w.verif_state();
                if st.len > st.capacity {
                    stats.invariant_broken += 1;
                    println!("VIOLATION writer invariant broken: {st:?}");
                }
                std::hint::black_box(w.verif_buffered().iter().map(|&b| b as u64).sum::<u64>());
            }
            let _ = catch_unwind(AssertUnwindSafe(move || drop(w)));
        }
    }
}

fn main() {
    std::panic::set_hook(Box::new(|_| {}));
    let depth: usize = std::env::args().nth(1).and_then(|s| s.parse().ok()).unwrap_or(2);
    let part = std::env::args().nth(2).unwrap_or_else(|| "all".to_string());
    let mut stats = Stats::default();
    if part == "all" || part == "reader" {
        reader_histories(depth, &mut stats);
    }
    if part == "all" || part == "scanners" {
        scanners(&mut stats);
    }
    if part == "all" || part == "writer" {
        writer_histories(depth, &mut stats);
    }
    println!(
        "DONE {{\"cases\": {}, \"ops\": {}, \"caught_panics\": {}, \"invariant_broken\": {}, \"content_wrong\": {}, \"depth\": {}}}",
        stats.cases, stats.ops, stats.caught_panics, stats.invariant_broken, stats.content_wrong, depth
    );
    if stats.invariant_broken > 0 || stats.content_wrong > 0 {
        std::process::exit(1);
    }
}

//! Counting global allocator with per-thread accounting of *requested* sizes.
//!
//! `current` / `peak` are per thread (the harness runs one case per thread at a time), so a
//! multi-gigabyte `reserve` is seen without the memory ever being touched. Requests above
//! `HUGE` are additionally recorded (`huge_requests`) — the allocator still tries to serve them.

use std::alloc::{GlobalAlloc, Layout, System};
use std::cell::Cell;

pub struct Counting;

thread_local! {
    static CURRENT: Cell<usize> = const { Cell::new(0) };
    static PEAK: Cell<usize> = const { Cell::new(0) };
    static LARGEST: Cell<usize> = const { Cell::new(0) };
    static ENABLED: Cell<bool> = const { Cell::new(false) };
}

#[inline]
fn add(n: usize) {
    let _ = ENABLED.try_with(|e| {
        if e.get() {
            let _ = CURRENT.try_with(|c| {
                let v = c.get().wrapping_add(n);
                c.set(v);
                let _ = PEAK.try_with(|p| {
                    if v > p.get() {
                        p.set(v)
                    }
                });
            });
            let _ = LARGEST.try_with(|l| {
                if n > l.get() {
                    l.set(n)
                }
            });
        }
    });
}

#[inline]
fn sub(n: usize) {
    let _ = ENABLED.try_with(|e| {
        if e.get() {
            let _ = CURRENT.try_with(|c| c.set(c.get().saturating_sub(n)));
        }
    });
}

unsafe impl GlobalAlloc for Counting {
    unsafe fn alloc(&self, layout: Layout) -> *mut u8 {
        add(layout.size());
        System.alloc(layout)
    }
    unsafe fn dealloc(&self, ptr: *mut u8, layout: Layout) {
        sub(layout.size());
        System.dealloc(ptr, layout)
    }
    unsafe fn alloc_zeroed(&self, layout: Layout) -> *mut u8 {
        add(layout.size());
        System.alloc_zeroed(layout)
    }
    unsafe fn realloc(&self, ptr: *mut u8, layout: Layout, new_size: usize) -> *mut u8 {
        if new_size >= layout.size() {
            add(new_size - layout.size());
        } else {
            sub(layout.size() - new_size);
        }
        System.realloc(ptr, layout, new_size)
    }
}

/// Start measuring on this thread: current = peak = 0.
pub fn start() {
    CURRENT.with(|c| c.set(0));
    PEAK.with(|c| c.set(0));
    LARGEST.with(|c| c.set(0));
    ENABLED.with(|c| c.set(true));
}

/// Stop measuring; returns (peak requested bytes live at once, largest single request).
pub fn stop() -> (usize, usize) {
    ENABLED.with(|c| c.set(false));
    (PEAK.with(|c| c.get()), LARGEST.with(|c| c.get()))
}

pub fn peak() -> usize {
    PEAK.with(|c| c.get())
}

pub fn current() -> usize {
    CURRENT.with(|c| c.get())
}

/// Reset the peak to the current level (to measure a steady-state phase).
pub fn reset_peak() {
    let cur = CURRENT.with(|c| c.get());
    PEAK.with(|c| c.set(cur));
}

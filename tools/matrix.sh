#!/bin/bash
# Development aid (not used by any registered check): cross-detection matrix on the private copy
# (/tmp/xverif + /tmp/xrepo, see private_copy.sh): every seeded change x the quick checks that
# could plausibly be affected by the files it touches. One line per (seed, check) in $OUT:
#   <seed> <check> rc=<exit> <first violation keys>
OUT=${1:-/tmp/xmatrix.log}
X=/tmp/xverif
R=/tmp/xrepo
cd $X || exit 2
: > $OUT
for d in /verif/seeded/C*-[0-9]; do
  s=$(basename $d)
  git -C $R checkout -q -- .
  git -C $R apply $d/patch.diff || { echo "$s APPLY-FAIL" >> $OUT; continue; }
  files=$(grep '^+++ ' $d/patch.diff)
  props="C01 C03 C04 C05 C06 C07 C08 C09 C10"
  echo "$files" | grep -q "flussab/src/" && props="$props C02 C14"
  echo "$files" | grep -q "deferred_writer.rs\|write/text.rs\|flussab/src/write" && props="$props C11"
  echo "$files" | grep -q "aig.rs" && props="$props C12"
  echo "$files" | grep -q "flussab/src/text.rs" && props="$props C13 C16"
  echo "$files" | grep -q "flussab/src/parser.rs" && props="$props C15"
  echo "$files" | grep -q "flussab-btor2/src/token.rs" && props="$props C14"
  own=${s%-*}
  echo " $props " | grep -q " $own " || props="$props $own"
  for p in $props; do
    nice -n 10 ./check $p quick > $X/scratch-out.txt 2>&1; rc=$?
    echo "$s $p rc=$rc $(grep 'key=' $X/scratch-out.txt | head -3 | tr -s ' ' | tr '\n' ';' | cut -c1-260)" >> $OUT
  done
  git -C $R checkout -q -- .
done
echo MATRIXDONE >> $OUT

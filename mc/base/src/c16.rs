//! C16 — text scanning helpers pass over exactly what they document, and no further.
//!
//! E-choice, complete for small strings: `tabs_or_spaces`, `newline`, `next_newline`, `fixed` on
//! every byte string up to a length bound over {SP, TAB, CR, LF, 'x'}, every start offset, every
//! fixed pattern of the catalogue, every chunk size of {1, 2, 16384} and **every** read schedule
//! (all compositions, explored by the stateless DFS over the source's size menu).
//! Oracle: reference functions on the full string give the expected offset and the exact amount of
//! look-ahead needed to decide; the scripted source must have been asked for exactly the shortest
//! schedule prefix that covers it (no read after the decision was possible, none missing); the
//! reader's position and buffered prefix are unchanged.

use flussab::{text, DeferredReader};
use mc_core::choice::explore;
use mc_core::report::Report;
use mc_core::source::{Ans, Grain, Menu, ScriptedSource, SourceCfg};
use mc_core::subject::{catch, short_loc};
use mc_core::{hex, json, show, unhex, Budget, Tier, Value};
use std::io::Read;

#[derive(Clone, Debug, PartialEq, Eq)]
pub enum Scan {
    TabsOrSpaces,
    Newline,
    NextNewline,
    Fixed(Vec<u8>),
}

impl Scan {
    fn name(&self) -> &'static str {
        match self {
            Scan::TabsOrSpaces => "tabs_or_spaces",
            Scan::Newline => "newline",
            Scan::NextNewline => "next_newline",
            Scan::Fixed(_) => "fixed",
        }
    }
}

#[derive(Clone, Copy, Debug, PartialEq, Eq)]
pub enum Need {
    /// the first `k` bytes of the stream must be available, nothing more
    Bytes(usize),
    /// everything up to and including the end-of-input answer
    Eof,
}

/// Reference semantics on the full string: (returned offset, exact look-ahead).
pub fn reference(scan: &Scan, s: &[u8], offset: usize) -> (usize, Need) {
    let len = s.len();
    match scan {
        Scan::TabsOrSpaces => {
            let mut i = offset;
            while i < len && (s[i] == b' ' || s[i] == b'\t') {
                i += 1;
            }
            if i < len {
                (i, Need::Bytes(i + 1))
            } else {
                (i.max(offset), Need::Eof)
            }
        }
        Scan::Newline => {
            if offset >= len {
                (offset, Need::Eof)
            } else if s[offset] == b'\n' {
                (offset + 1, Need::Bytes(offset + 1))
            } else if s[offset] == b'\r' {
                if offset + 1 >= len {
                    (offset, Need::Eof)
                } else if s[offset + 1] == b'\n' {
                    (offset + 2, Need::Bytes(offset + 2))
                } else {
                    (offset, Need::Bytes(offset + 2))
                }
            } else {
                (offset, Need::Bytes(offset + 1))
            }
        }
        Scan::NextNewline => {
            if offset >= len {
                return (offset, Need::Eof);
            }
            match s[offset..].iter().position(|&b| b == b'\n') {
                Some(i) => (offset + i + 1, Need::Bytes(offset + i + 1)),
                None => (len, Need::Eof),
            }
        }
        Scan::Fixed(pat) => {
            if pat.is_empty() {
                return (offset, Need::Bytes(0));
            }
            for (j, &p) in pat.iter().enumerate() {
                let idx = offset.saturating_add(j);
                if idx >= len {
                    return (offset, Need::Eof);
                }
                if s[idx] != p {
                    return (offset, Need::Bytes(idx + 1));
                }
            }
            (offset + pat.len(), Need::Bytes(offset + pat.len()))
        }
    }
}

/// What a minimal consumer does with the same answers: read until `need` is covered.
fn reference_reads(s: &[u8], log: &[Ans], chunk: usize, need: Need, pre_calls: u32) -> (usize, u32, u32) {
    let (mut src, st) = ScriptedSource::new(SourceCfg::new(s, Grain::Script(log.to_vec())), vec![]);
    let mut buf = vec![0u8; chunk];
    let mut have = 0usize;
    let mut calls = 0u32;
    loop {
        // the reads the harness itself made before the scan (pre-buffered bytes) happen regardless
        match need {
            Need::Bytes(k) if have >= k && calls >= pre_calls => break,
            _ => {}
        }
        calls += 1;
        match src.read(&mut buf) {
            Ok(0) => break,
            Ok(n) => have += n,
            Err(_) => unreachable!(),
        }
    }
    let st = st.borrow();
    (st.pos, st.read_calls, st.eof_returned)
}

pub struct Case<'a> {
    pub s: &'a [u8],
    pub offset: usize,
    pub scan: &'a Scan,
    pub chunk: usize,
    /// displaced start: 2*chunk + 1 bytes are read and consumed before the scan, so that the cursor
    /// is more than two chunks into the buffer and the first refill inside the scan realigns it;
    /// Some(k): k bytes of the text are buffered as well before the scan starts (the first look-ups
    /// hit the buffer, the realigning refill happens in the middle of the scan)
    pub displaced: Option<usize>,
    /// the reader has already buffered everything and seen the end of the input before the scan
    pub complete: bool,
    /// the source ends with a permanent I/O error instead of an end-of-input answer
    pub fault: bool,
}

/// Serves a fixed prefix (as much as fits per read, never mixed with the inner source), then the
/// inner source.
struct Prefixed<R> {
    prefix: Vec<u8>,
    pos: usize,
    inner: R,
}

impl<R: Read> Read for Prefixed<R> {
    fn read(&mut self, buf: &mut [u8]) -> std::io::Result<usize> {
        if self.pos < self.prefix.len() && !buf.is_empty() {
            let n = buf.len().min(self.prefix.len() - self.pos);
            buf[..n].copy_from_slice(&self.prefix[self.pos..self.pos + n]);
            self.pos += n;
            return Ok(n);
        }
        self.inner.read(buf)
    }
}

#[derive(Debug)]
pub struct Outcome {
    pub problems: Vec<(String, String)>,
    pub reads: u32,
    pub result: Option<usize>,
}

pub fn exec(case: &Case, forced: Vec<(u32, u32)>) -> (Vec<(u32, u32)>, Option<String>, Outcome) {
    // in the displaced family with a meaningful filler the source scribbles that byte behind what it
    // delivers as well
    let filler = DISPLACED_FILLER.load(std::sync::atomic::Ordering::Relaxed);
    let cfg = SourceCfg::new(case.s, Grain::Choose(Menu::AllSizes)).record(true).fault_at(if case.fault { Some(case.s.len()) } else { None }).scribble(if filler != b'y' { Some(filler) } else { None });
    let (source, st) = ScriptedSource::new(cfg, forced);
    let (expected, need) = reference(case.scan, case.s, case.offset);
    let mut problems = Vec::new();
    let displaced_by = if case.displaced.is_some() { 2 * case.chunk + 1 } else { 0 };
    let pre = case.displaced.unwrap_or(0).min(case.s.len());
    let pre_calls = std::cell::Cell::new(0u32);
    let res = catch(|| {
        let mut reader = DeferredReader::from_read(Prefixed { prefix: vec![DISPLACED_FILLER.load(std::sync::atomic::Ordering::Relaxed); displaced_by], pos: 0, inner: source });
        reader.set_chunk_size(case.chunk);
        if displaced_by > 0 {
            reader.request(displaced_by + pre);
            reader.advance(displaced_by);
            pre_calls.set(st.borrow().read_calls);
        }
        if case.complete {
            // buffer everything and see the end of the input first
            reader.request(case.s.len() + 1);
            pre_calls.set(st.borrow().read_calls);
        }
        let r = match case.scan {
            Scan::TabsOrSpaces => text::tabs_or_spaces(&mut reader, case.offset),
            Scan::Newline => text::newline(&mut reader, case.offset),
            Scan::NextNewline => text::next_newline(&mut reader, case.offset),
            Scan::Fixed(p) => text::fixed(&mut reader, case.offset, p),
        };
        (r, reader.position(), reader.buf().to_vec(), reader.buf_len())
    });
    let st = st.borrow();
    let mut result = None;
    match res {
        Err((msg, loc)) => problems.push(("panic".to_string(), format!("panicked: {msg} @ {}", short_loc(&loc)))),
        Ok((r, position, buf, buf_len)) => {
            result = Some(r);
            if r != expected {
                problems.push(("offset".into(), format!("returned offset {r}, documented behaviour gives {expected}")));
            }
            if position != displaced_by {
                problems.push(("consumed".into(), format!("scanner moved the cursor to {position}")));
            }
            if buf_len != st.pos || buf[..] != case.s[..st.pos.min(case.s.len())] {
                problems.push(("buffer".into(), format!("buffered data {:?} is not the delivered prefix ({} bytes delivered)", show(&buf), st.pos)));
            }
            let (pos, calls, eofs) = if case.complete {
                // everything is buffered and the end was seen: the scan must not touch the source
                (case.s.len(), pre_calls.get(), 1)
            } else {
                reference_reads(case.s, &st.log, case.chunk, need, pre_calls.get())
            };
            // a terminal error answers the same question as an end-of-input answer
            if (st.pos, st.read_calls, st.eof_returned + st.err_returned) != (pos, calls, eofs) {
                let kind = if st.read_calls > calls { "over-read" } else { "under-read" };
                problems.push((
                    kind.into(),
                    format!(
                        "source was asked {} times and delivered {} bytes (eof answers {}), but deciding needs exactly {:?}: {} reads, {} bytes (eof answers {})",
                        st.read_calls, st.pos, st.eof_returned, need, calls, pos, eofs
                    ),
                ));
            }
        }
    }
    (st.chooser.taken.clone(), st.chooser.diverged.clone(), Outcome { problems, reads: st.read_calls, result })
}

/// The byte the displaced prefix consists of. After the realigning refill the bytes right behind
/// the valid window are stale copies of it (and of the text): with a line feed, blank or carriage
/// return there, a scanner that looks one byte beyond the window finds something meaningful.
static DISPLACED_FILLER: std::sync::atomic::AtomicU8 = std::sync::atomic::AtomicU8::new(b'y');

/// strings up to this length also run with a displaced start (set from the tier in `run`)
static DISPLACED_MAX_LEN: std::sync::atomic::AtomicUsize = std::sync::atomic::AtomicUsize::new(5);

const ALPHABET: [u8; 5] = [b' ', b'\t', b'\r', b'\n', b'x'];

fn strings_of_len(n: usize) -> Vec<Vec<u8>> {
    let mut out = Vec::new();
    let total = ALPHABET.len().pow(n as u32);
    for mut i in 0..total {
        let mut s = Vec::with_capacity(n);
        for _ in 0..n {
            s.push(ALPHABET[i % ALPHABET.len()]);
            i /= ALPHABET.len();
        }
        out.push(s);
    }
    out
}

fn patterns_for(s: &[u8], offset: usize) -> Vec<Vec<u8>> {
    // every pattern of length <= 3 over {x, SP, CR}, the empty pattern, the input's own
    // continuation at `offset` (prefix-of-input) and one longer than the input
    let mut pats: Vec<Vec<u8>> = vec![vec![]];
    let a = [b'x', b' ', b'\r'];
    for l in 1..=3usize {
        for mut i in 0..a.len().pow(l as u32) {
            let mut p = Vec::new();
            for _ in 0..l {
                p.push(a[i % 3]);
                i /= 3;
            }
            pats.push(p);
        }
    }
    if offset <= s.len() {
        let rest = &s[offset..];
        for k in [1usize, 2, 3, 4, 7, 8, 9, 12, 15, 16, 17] {
            if k <= rest.len() {
                pats.push(rest[..k].to_vec());
                // the same length with the last byte wrong
                let mut p = rest[..k].to_vec();
                p[k - 1] ^= 1;
                pats.push(p);
            }
        }
        let mut longer = rest.to_vec();
        longer.push(b'x');
        pats.push(longer);
        let mut longer = rest.to_vec();
        longer.push(b'\n');
        pats.push(longer);
    }
    pats.sort();
    pats.dedup();
    pats
}

fn replay_value(case: &Case, taken: &[(u32, u32)]) -> Value {
    json!({
        "property": "C16",
        "scan": case.scan.name(),
        "pattern_hex": if let Scan::Fixed(p) = case.scan { hex(p) } else { String::new() },
        "input_hex": hex(case.s),
        "input": show(case.s),
        "offset": case.offset,
        "chunk": case.chunk,
        "displaced": case.displaced,
        "filler": DISPLACED_FILLER.load(std::sync::atomic::Ordering::Relaxed),
        "complete": case.complete,
        "fault": case.fault,
        "choices": taken.iter().map(|(c, n)| json!([c, n])).collect::<Vec<_>>(),
    })
}

/// Start offsets far beyond any input (where `offset + n` wraps): the scanners must answer like for
/// any other offset behind the end of the input.
const EXTREME_OFFSETS: [usize; 5] = [usize::MAX, usize::MAX - 1, usize::MAX - 2, usize::MAX - 7, usize::MAX / 2 + 1];

fn check_string(s: &[u8], report: &mut Report) {
    let mut offsets: Vec<usize> = (0..=s.len() + 1).collect();
    if s.len() <= 4 {
        offsets.extend_from_slice(&EXTREME_OFFSETS);
    }
    check_string_with(s, &offsets, &[1usize, 2, 16384], None, report);
}

fn check_string_with(s: &[u8], offsets: &[usize], chunks: &[usize], bound: Option<usize>, report: &mut Report) {
    check_string_variants(s, offsets, chunks, bound, &[None, Some(0), Some(1), Some(2)], "C16", report)
}

fn check_string_variants(s: &[u8], offsets: &[usize], chunks: &[usize], bound: Option<usize>, variants: &[Option<usize>], property: &str, report: &mut Report) {
    let displaced_max_len = DISPLACED_MAX_LEN.load(std::sync::atomic::Ordering::Relaxed);
    for &offset in offsets {
        let mut scans = vec![Scan::TabsOrSpaces, Scan::Newline, Scan::NextNewline];
        scans.extend(patterns_for(s, offset).into_iter().map(Scan::Fixed));
        for scan in &scans {
            for &(chunk, displaced) in chunks.iter().flat_map(|&c| variants.iter().map(move |&d| (c, d))).collect::<Vec<_>>().iter() {
                // the displaced start only for small chunk sizes and short strings
                if displaced.is_some() && (chunk > 4 || s.len() > displaced_max_len || offset > s.len() + 1 || displaced.unwrap() > s.len()) {
                    continue;
                }
                // the same scan on a reader that has already seen the end of the input (default
                // schedule only: how the data arrived before does not matter)
                if displaced.is_none() && property == "C16" && offset <= s.len() + 1 {
                    // (reader already complete?, source ends with an error instead of end of input?)
                    for (complete, fault) in [(true, false), (false, true), (true, true)] {
                        let case = Case { s, offset, scan, chunk, displaced: None, complete, fault };
                        let (taken, diverged, outcome) = exec(&case, vec![]);
                        report.evaluations += 1;
                        report.count("scans_on_a_finished_or_failing_reader", 1);
                        if let Some(d) = diverged {
                            report.machinery_errors.push(format!("C16 nondeterminism: {d}"));
                        }
                        let label = match (complete, fault) {
                            (true, false) => "at-end",
                            (false, true) => "failing-source",
                            _ => "after-failure",
                        };
                        for (kind, what) in outcome.problems {
                            report.violation(
                                format!("scanner/{}/{label}/{}", scan.name(), kind),
                                format!("{}({:?}, offset {}{}) chunk {} ({}): {}", scan.name(), show(s), offset, if let Scan::Fixed(p) = scan { format!(", pattern {:?}", show(p)) } else { String::new() }, chunk, match (complete, fault) { (true, false) => "reader has already seen the end of the input", (false, true) => "the source ends with an I/O error", _ => "reader has already met the source's I/O error" }, what),
                                replay_value(&case, &taken),
                                (s.len() * 100) as u64,
                            );
                        }
                    }
                }
                let case = Case { s, offset, scan, chunk, displaced, complete: false, fault: false };
                let mut local_err = None;
                let r = explore(
                    bound,
                    |prefix| {
                        let (taken, diverged, outcome) = exec(&case, prefix);
                        if let Some(d) = diverged {
                            return Err(d);
                        }
                        report.evaluations += 1;
                        report.transitions += outcome.reads as u64;
                        if outcome.reads >= 2 {
                            report.nontrivial += 1;
                        }
                        report.outcome(format!(
                            "{}:{:?}:{:?}",
                            scan.name(),
                            outcome.result.map(|r| (r as isize).wrapping_sub(offset as isize)),
                            match reference(scan, s, offset).1 {
                                Need::Eof => -1isize,
                                Need::Bytes(k) => (k as isize).wrapping_sub(offset as isize),
                            }
                        ));
                        for (kind, what) in outcome.problems {
                            report.violation(
                                if property == "C16" { format!("scanner/{}/{}", scan.name(), kind) } else { format!("scanner/{}/displaced/{}", scan.name(), kind) },
                                format!("{}({:?}, offset {}{}) chunk {}{} schedule {:?}: {}", scan.name(), show(s), offset, if let Scan::Fixed(p) = scan { format!(", pattern {:?}", show(p)) } else { String::new() }, chunk, displaced.map_or(String::new(), |k| format!(" (cursor displaced by 2*chunk+1 consumed bytes, {k} bytes of the text pre-buffered)")), taken.iter().map(|c| c.0).collect::<Vec<_>>(), what),
                                {
                                    let mut v = replay_value(&case, &taken);
                                    if property != "C16" {
                                        v["property"] = json!(property);
                                        v["subject"] = json!("text scanners");
                                    }
                                    v
                                },
                                (s.len() * 100 + taken.len()) as u64,
                            );
                        }
                        Ok(taken)
                    },
                    || false,
                );
                match r {
                    Ok(st) => report.max("max_reads_in_one_execution", st.max_choice_points as u64),
                    Err(e) => local_err = Some(e),
                }
                if let Some(e) = local_err {
                    report.machinery_errors.push(format!("C16 nondeterminism: {e}"));
                }
            }
        }
    }
}

/// C14 part: the scanners with a displaced cursor (the first refill inside the scan realigns the
/// buffer; a pointer or index into the buffer kept across the refill goes stale): every string up
/// to length 4 (quick) / 5 (thorough), every offset, every scanner and pattern, chunk sizes 1, 2, 4,
/// every read schedule.
pub fn displaced_family(tier: Tier, report: &mut Report) {
    let max_len = tier.pick(4, 5);
    DISPLACED_MAX_LEN.store(max_len, std::sync::atomic::Ordering::Relaxed);
    let mut strings = Vec::new();
    for n in 0..=max_len {
        strings.extend(strings_of_len(n));
    }
    let fillers: Vec<u8> = tier.pick(vec![b'y', b'\n'], vec![b'y', b'\n', b' ', b'\r', b'x']);
    for &filler in &fillers {
        DISPLACED_FILLER.store(filler, std::sync::atomic::Ordering::Relaxed);
        let total = mc_core::par::par_fold(
            strings.len(),
            mc_core::threads(),
            Report::new,
            |acc, i| {
                let s = &strings[i];
                // quick tier: the meaningful fillers run on the strings of length <= 3 only
                if tier == Tier::Quick && filler != b'y' && s.len() > 3 {
                    return;
                }
                let offsets: Vec<usize> = (0..=s.len() + 1).collect();
                check_string_variants(s, &offsets, &[1, 2, 4], None, &[Some(0), Some(1), Some(2), Some(3)], "C14", acc);
                acc.states += 1;
            },
            |a, b| a.merge(b),
        );
        report.merge(total);
    }
    DISPLACED_FILLER.store(b'y', std::sync::atomic::Ordering::Relaxed);
    report.completed.push(format!("text scanners with a displaced cursor: {} strings x offsets x scanners/patterns x chunk {{1,2,4}} x all read schedules x prefix fillers {:?} (stale bytes behind the window)", strings.len(), fillers));
}

pub fn run(tier: Tier, report: &mut Report) {
    let max_len = tier.pick(6, 8);
    DISPLACED_MAX_LEN.store(tier.pick(5, 6), std::sync::atomic::Ordering::Relaxed);
    let budget = Budget::new(tier.pick(60.0, 1500.0));
    let threads = mc_core::threads();
    // second family — the full byte alphabet: for every byte value b outside the small alphabet,
    // every string of length <= 3 (quick) / 4 (thorough) over {SP, LF, CR, b} that contains b.
    // Settles per-byte classification (form feed, vertical tab, NUL, NEL/0x85, case variants of
    // pattern bytes, bytes >= 0x80).
    let l2 = tier.pick(3, 4);
    let mut strings: Vec<Vec<u8>> = Vec::new();
    for b in 0..=255u8 {
        if ALPHABET.contains(&b) {
            continue;
        }
        let a = [b' ', b'\n', b'\r', b];
        for n in 1..=l2 {
            for mut i in 0..4usize.pow(n as u32) {
                let mut s = Vec::with_capacity(n);
                for _ in 0..n {
                    s.push(a[i % 4]);
                    i /= 4;
                }
                if s.contains(&b) {
                    strings.push(s);
                }
            }
        }
    }
    let stop = std::sync::atomic::AtomicBool::new(false);
    let total = mc_core::par::par_fold(
        strings.len(),
        threads,
        Report::new,
        |acc, i| {
            if stop.load(std::sync::atomic::Ordering::Relaxed) {
                return;
            }
            if budget.expired() {
                stop.store(true, std::sync::atomic::Ordering::Relaxed);
                return;
            }
            check_string(&strings[i], acc);
            acc.states += 1;
            acc.count("full_byte_alphabet_strings", 1);
        },
        |a, b| a.merge(b),
    );
    report.merge(total);
    if stop.load(std::sync::atomic::Ordering::Relaxed) {
        report.cap("time budget hit inside the full-byte-alphabet family".to_string());
    } else {
        report.completed.push(format!("all {} strings of length <= {l2} over {{SP,LF,CR,b}} containing b, for each of the 251 other byte values b, x all offsets x all scanners/patterns x chunks x all read schedules", strings.len()));
    }
    // third family — word lanes: 12 filler bytes with every byte value at every position, followed
    // by a line end and one more byte, so that block-wise (8 bytes at a time) implementations see every
    // byte value in every lane. Start offsets 0, 1 and 3; chunk sizes 4 and 16384; the one-shot
    // schedule and every schedule with one departure from it.
    let mut strings: Vec<Vec<u8>> = Vec::new();
    for b in 0..=255u8 {
        for k in 0..12usize {
            for filler in [b'x', b' '] {
                if b == filler {
                    continue;
                }
                let mut s = vec![filler; 12];
                s[k] = b;
                s.extend_from_slice(b"\nx");
                strings.push(s);
            }
        }
    }
    let stop = std::sync::atomic::AtomicBool::new(false);
    let total = mc_core::par::par_fold(
        strings.len(),
        threads,
        Report::new,
        |acc, i| {
            if stop.load(std::sync::atomic::Ordering::Relaxed) {
                return;
            }
            if budget.expired() {
                stop.store(true, std::sync::atomic::Ordering::Relaxed);
                return;
            }
            check_string_with(&strings[i], &[0, 1, 3], &[4, 16384], Some(1), acc);
            acc.states += 1;
            acc.count("word_lane_strings", 1);
        },
        |a, b| a.merge(b),
    );
    report.merge(total);
    if stop.load(std::sync::atomic::Ordering::Relaxed) {
        report.cap("time budget hit inside the word-lane family".to_string());
    } else {
        report.completed.push(format!("word lanes: {} strings (12 filler bytes x / SP with every byte value at every position, then LF x) x offsets {{0,1,3}} x all scanners/patterns x chunk {{4,16384}} x every schedule with at most one departure from one-shot", strings.len()));
    }
    for n in 0..=max_len {
        if budget.expired() {
            report.cap(format!("time budget hit before strings of length {n}"));
            break;
        }
        let strings = strings_of_len(n);
        let stop = std::sync::atomic::AtomicBool::new(false);
        let total = mc_core::par::par_fold(
            strings.len(),
            threads,
            Report::new,
            |acc, i| {
                if stop.load(std::sync::atomic::Ordering::Relaxed) {
                    return;
                }
                if budget.expired() {
                    stop.store(true, std::sync::atomic::Ordering::Relaxed);
                    return;
                }
                check_string(&strings[i], acc);
                acc.states += 1;
            },
            |a, b| a.merge(b),
        );
        report.merge(total);
        if stop.load(std::sync::atomic::Ordering::Relaxed) {
            report.cap(format!("time budget hit inside strings of length {n}"));
            break;
        }
        report.completed.push(format!("all {} strings of length {n} x all offsets x all scanners/patterns x chunk {{1,2,16384}} x all read schedules", strings.len()));
    }
    report.traces = report.evaluations;
    // samples: a few concrete executions written out
    for (s, offset, scan, chunk, forced) in [
        (&b" \t x"[..], 0usize, Scan::TabsOrSpaces, 1usize, vec![]),
        (&b"x\r\nx"[..], 1, Scan::Newline, 16384, vec![(1u32, 4u32), (1, 3)]),
        (&b"xx x\n"[..], 0, Scan::Fixed(b"xx\r".to_vec()), 2, vec![(1, 2)]),
        (&b"\t\r x\n "[..], 1, Scan::NextNewline, 16384, vec![(2, 6)]),
    ] {
        let case = Case { s, offset, scan: &scan, chunk, displaced: None, complete: false, fault: false };
        let (taken, _, outcome) = exec(&case, forced);
        let mut v = replay_value(&case, &taken);
        v["returned"] = json!(outcome.result);
        v["reads"] = json!(outcome.reads);
        v["expected"] = json!(format!("{:?}", reference(&scan, s, offset)));
        report.sample(v);
    }
}

pub fn replay(v: &Value) -> (bool, String) {
    let s = unhex(v["input_hex"].as_str().unwrap());
    let scan = match v["scan"].as_str().unwrap() {
        "tabs_or_spaces" => Scan::TabsOrSpaces,
        "newline" => Scan::Newline,
        "next_newline" => Scan::NextNewline,
        _ => Scan::Fixed(unhex(v["pattern_hex"].as_str().unwrap())),
    };
    let forced: Vec<(u32, u32)> = v["choices"].as_array().unwrap().iter().map(|c| (c[0].as_u64().unwrap() as u32, c[1].as_u64().unwrap() as u32)).collect();
    DISPLACED_FILLER.store(v["filler"].as_u64().map_or(b'y', |f| f as u8), std::sync::atomic::Ordering::Relaxed);
    let case = Case { s: &s, offset: v["offset"].as_u64().unwrap() as usize, scan: &scan, chunk: v["chunk"].as_u64().unwrap() as usize, displaced: v["displaced"].as_u64().map(|k| k as usize), complete: v["complete"].as_bool().unwrap_or(false), fault: v["fault"].as_bool().unwrap_or(false) };
    let (taken, diverged, outcome) = exec(&case, forced.clone());
    let (_, _, outcome2) = exec(&case, forced);
    let mut text = format!(
        "{}({:?}, offset {}) pattern {:?} chunk {} schedule {:?}\n  expected (offset, look-ahead): {:?}\n  returned: {:?} after {} reads\n",
        scan.name(), show(&s), case.offset, scan, case.chunk, taken, reference(&scan, &s, case.offset), outcome.result, outcome.reads
    );
    if let Some(d) = diverged {
        text.push_str(&format!("  REPLAY DIVERGED: {d}\n"));
    }
    if format!("{outcome:?}") != format!("{outcome2:?}") {
        text.push_str("  NONDETERMINISTIC REPLAY\n");
    }
    for (k, w) in &outcome.problems {
        text.push_str(&format!("  {k}: {w}\n"));
    }
    (!outcome.problems.is_empty(), text)
}

pub const RULE: &str = "every byte string up to the completed length over {SP,TAB,CR,LF,x} (plus, for each of the 251 other byte values b, every string of length <= 3/4 over {SP,LF,CR,b} containing b) x every start offset 0..=len+1 x {tabs_or_spaces, newline, next_newline, fixed with every pattern of length <=3 over {x,SP,CR}, the empty pattern, the input's own continuations and two patterns longer than the input} x chunk size {1,2,16384} x every read schedule (all compositions reached, DFS over the size menu); executions are distinct by construction; non-trivial = at least two read() calls happened during the scan";

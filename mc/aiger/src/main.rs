fn main(){}

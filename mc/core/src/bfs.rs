//! Explicit-state breadth-first search over operation histories of a real object (engine E-bfs).
//!
//! A state is represented by the history `H` that reaches it (live objects holding a
//! `Box<dyn Read>` cannot be cloned; a successor is built by replaying `history + step` on a fresh
//! object). `expand` replays one history, executes every enabled transition (operation × nested
//! environment choices) on the real object with the step oracle, and returns the successor
//! histories with their canonical keys. States are deduplicated by key; levels are processed in
//! parallel but inserted sequentially in a fixed order, so that state and transition totals do not
//! depend on the number of workers.

use crate::par::par_map;
use crate::report::Report;
use crate::Budget;
use std::collections::HashSet;

#[derive(Debug, Clone, Default)]
pub struct BfsResult {
    pub states: u64,
    pub transitions: u64,
    pub depth: usize,
    /// frontier ran empty: the reachable state set is closed
    pub closed: bool,
    pub per_level: Vec<usize>,
}

pub fn bfs<H: Clone + Send + Sync>(
    init: Vec<(H, Vec<u8>)>,
    expand: impl Fn(&H, &mut Report) -> Vec<(H, Vec<u8>)> + Sync,
    max_states: usize,
    max_depth: usize,
    budget: &Budget,
    threads: usize,
    report: &mut Report,
) -> BfsResult {
    let mut seen: HashSet<Vec<u8>> = HashSet::new();
    let mut frontier: Vec<H> = Vec::new();
    for (h, k) in init {
        if seen.insert(k) {
            frontier.push(h);
        }
    }
    let mut res = BfsResult { states: seen.len() as u64, ..Default::default() };
    res.per_level.push(frontier.len());
    while !frontier.is_empty() {
        if res.depth >= max_depth {
            report.cap(format!("bfs depth cap {max_depth} reached with {} frontier states", frontier.len()));
            return res;
        }
        if budget.expired() {
            report.cap(format!("bfs time budget hit at depth {} with {} frontier states", res.depth, frontier.len()));
            return res;
        }
        // process the level in blocks so that the budget / state cap is polled regularly
        let mut next: Vec<H> = Vec::new();
        let block = 4096.max(frontier.len() / 64);
        let mut start = 0;
        while start < frontier.len() {
            let end = (start + block).min(frontier.len());
            let slice = &frontier[start..end];
            let results = par_map(slice.len(), threads, |i| {
                let mut local = Report::new();
                let succ = expand(&slice[i], &mut local);
                (succ, local)
            });
            for (succ, local) in results {
                report.merge(local);
                res.transitions += succ.len() as u64;
                for (h, k) in succ {
                    if seen.insert(k) {
                        next.push(h);
                    }
                }
            }
            start = end;
            if seen.len() > max_states {
                res.states = seen.len() as u64;
                report.cap(format!("bfs state cap {max_states} exceeded at depth {}", res.depth));
                return res;
            }
            if budget.expired() && start < frontier.len() {
                res.states = seen.len() as u64;
                report.cap(format!("bfs time budget hit inside depth {}", res.depth));
                return res;
            }
        }
        res.depth += 1;
        res.states = seen.len() as u64;
        res.per_level.push(next.len());
        frontier = next;
    }
    res.closed = true;
    res
}

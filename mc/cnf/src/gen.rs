//! Small-scope document generators for the DIMACS family.

use mc_core::generic::{byte_sweep, comment_byte_docs, dedup_docs, digit_byte_docs, single_edit_neighbours, token_sequences, Doc, MARKERS};
use mc_core::Tier;

pub fn corpus(kind: &str) -> Vec<Doc> {
    let d = |n: &str, b: &[u8]| Doc::new(format!("{kind}:{n}"), b.to_vec());
    let long_comment = {
        let mut v = b"c ".to_vec();
        v.extend(std::iter::repeat(b'x').take(60));
        v.extend_from_slice(b"\n1 0\n2 0\n3 0\n-1 -2 0\n-3 0\n1 2 3 0\n");
        v
    };
    match kind {
        "cnf" => vec![
            d("std", b"p cnf 3 2\n1 -3 0\n2 3 -1 0\n"),
            d("empty", b""),
            d("comment-header", b"c comment\np cnf 0 0\n"),
            d("headerless", b"1 2 -3 0\n4 5 0\n-6 0\n0\n"),
            d("no-final-newline", b"1 2 -3 0\n4 5 0\n-6 0"),
            d("split-crlf-tabs", b"p cnf 9 3\r\n1 2\r\nc mid\r\n\r\n-3 0\r\n4\t 5  0 \t\r\n-6\n0\n"),
            d("long-numbers", b"p cnf 2147483647 0\n2147483647 -2147483647 12345678 -1234567 123456789 -12345678 0\n"),
            d("long-comment", &long_comment),
            d("zeros", b"p cnf 5 0\n001 -0002 0\n3 -0\n0000000004 00 \n"),
            d("blank-start", b"  \n\n c x\n \tp cnf 2 1 \n  1   -2  0  \n\n"),
            d("i8-range", b"p cnf 127 1\n127 -127 0\n"),
            d("late-comment", b"p cnf 2 2\n1 0\nc late\n2 0\nc end"),
        ],
        "wcnf" => vec![
            d("std", b"p wcnf 3 2 10\n10 1 -2 0\n3 2 3 0\n"),
            d("empty", b""),
            d("headerless", b"5 1 0\n7 -2 3 0\n"),
            d("big-weight", b"18446744073709551615 1 0\n0 0\n"),
            d("split", b"p wcnf 4 2 9\n3\n1\nc mid\n0\n12345678 -4 0"),
            d("crlf", b"p wcnf 2 1 1\r\n1 1 2 0\r\n"),
            d("long-comment", &[&b"c "[..], &[b'y'; 50][..], &b"\n1 1 0\n2 2 0\n3 -1 -2 0\n"[..]].concat()),
        ],
        "gcnf" => vec![
            d("std", b"p gcnf 3 2 2\n{1} 1 -2 0\n{2} 3 0\n"),
            d("empty", b""),
            d("headerless", b"{0} 1 0\n{7} -2 3 0\n"),
            d("split", b"p gcnf 4 2 9\n{3}\n1\nc mid\n0\n{12345678} -4 0"),
            d("crlf", b"p gcnf 2 1 1\r\n{1} 1 2 0\r\n"),
            d("long-comment", &[&b"c "[..], &[b'z'; 50][..], &b"\n{1} 1 0\n{2} 2 0\n{0} -1 -2 0\n"[..]].concat()),
        ],
        "log" => vec![
            d("sat", b"c foo\ns SATISFIABLE\nv 1 -2 3\nv -4 0\nc bar\n"),
            d("unsat", b"c foo\ns UNSATISFIABLE\nc bar\n"),
            d("unknown", b"s UNKNOWN\n"),
            d("empty", b""),
            d("assignment-first", b"v 1 2 0\ns SATISFIABLE\n"),
            d("v-only-zero", b"v 0\n"),
            d("no-final-newline", b"s SATISFIABLE\nv 12345678 -123456789 0"),
            d("unknown-lines", b"hello\n\nc\ns SATISFIABLE\n v 1\nv 1 0\n"),
        ],
        _ => vec![],
    }
}

/// Token alphabet for arbitrary / garbage inputs: one representative per shortcut visible in the code.
pub fn tokens(kind: &str) -> Vec<&'static [u8]> {
    let mut t: Vec<&'static [u8]> = vec![
        b" ", b"\n", b"\r\n", b"\t", b"0", b"1", b"-1", b"-", b"-0", b"00", b"12345678", b"123456789", b"2147483647", b"-2147483648", b"99999999999999999999", b"c", b"x", b"\xff", b"p",
    ];
    match kind {
        "cnf" => t.extend([&b"cnf"[..], b"p cnf 2 2\n"]),
        "wcnf" => t.extend([&b"wcnf"[..], b"p wcnf 2 2 3\n", b"18446744073709551616"]),
        "gcnf" => t.extend([&b"gcnf"[..], b"p gcnf 2 2 2\n", b"{1}", b"{", b"{3}", b"}"]),
        "log" => t.extend([&b"s "[..], b"v ", b"c ", b"SATISFIABLE", b"UNSATISFIABLE", b"UNKNOWN"]),
        _ => {}
    }
    t
}

/// Well-formed documents of about 50 KiB (more than three default chunks) with changing line
/// lengths, comments, CRLF lines and split clauses.
pub fn long_docs(kind: &str) -> Vec<Doc> {
    let mut body = Vec::new();
    let mut n = 0usize;
    let mut i = 0usize;
    while body.len() < 50_000 {
        i += 1;
        let (a, b, c) = (i % 9000 + 1, (i * 7) % 9000 + 1, (i * 13) % 9000 + 1);
        let eol = if i % 70 == 0 { "\r\n" } else { "\n" };
        let line = match kind {
            "cnf" => format!("{a} -{b} {c} 0{eol}"),
            "wcnf" => format!("{} {a} -{b} 0{eol}", i % 97 + 1),
            "gcnf" => format!("{{{}}} {a} -{b} 0{eol}", i % 8),
            _ => format!("v {a} -{b} {c}{eol}"),
        };
        body.extend_from_slice(line.as_bytes());
        n += 1;
        if i % 50 == 0 {
            body.extend_from_slice(format!("c comment number {i} {}\n", "x".repeat(i % 41)).as_bytes());
        }
        if i % 90 == 0 && kind != "log" {
            // a clause split over three lines
            let pre = match kind {
                "wcnf" => "5 ",
                "gcnf" => "{3} ",
                _ => "",
            };
            body.extend_from_slice(format!("{pre}{a}\n  -{b}\n\t0\n").as_bytes());
            n += 1;
        }
    }
    let mut doc = match kind {
        "cnf" => format!("c long\np cnf 9001 {n}\n").into_bytes(),
        "wcnf" => format!("p wcnf 9001 {n} 100\n").into_bytes(),
        "gcnf" => format!("p gcnf 9001 {n} 7\n").into_bytes(),
        _ => b"c long\ns SATISFIABLE\n".to_vec(),
    };
    doc.extend_from_slice(&body);
    if kind == "log" {
        doc.extend_from_slice(b"v 0\n");
    }
    let mut headerless = body.clone();
    if kind == "log" {
        headerless.extend_from_slice(b"v 0\n");
    }
    // a corrupted copy: garbage two thirds into the document
    let mut bad = doc.clone();
    let k = bad.len() * 2 / 3;
    bad[k] = b'x';
    // one very long line (a look-ahead of several chunks that is consumed in one go), followed by more
    let small: &[u8] = match kind {
        "cnf" => b"p cnf 3 2\n1 -3 0\n2 3 -1 0\n",
        "wcnf" => b"p wcnf 3 2 10\n10 1 -2 0\n3 2 3 0\n",
        "gcnf" => b"p gcnf 3 2 2\n{1} 1 -2 0\n{2} 3 0\n",
        _ => b"s SATISFIABLE\nv 1 -2 3 0\n",
    };
    let mut long_comment = b"c ".to_vec();
    long_comment.extend(std::iter::repeat(b'x').take(100_000));
    long_comment.push(b'\n');
    long_comment.extend_from_slice(small);
    long_comment.extend_from_slice(b"c end\n");
    let mut v = vec![Doc::new(format!("^{kind}:long"), doc), Doc::new(format!("^{kind}:long-headerless"), headerless), Doc::new(format!("^{kind}:long-corrupted"), bad), Doc::new(format!("^{kind}:long-comment-line"), long_comment)];
    if kind != "log" {
        // a long run of blanks in front of a clause, and a long run of blank lines
        let mut blanks = small.to_vec();
        blanks.extend(std::iter::repeat(b' ').take(70_000));
        blanks.extend_from_slice(if kind == "cnf" { &b"0\n"[..] } else { &b"\n"[..] });
        let mut d = small[..small.iter().position(|&b| b == b'\n').unwrap() + 1].to_vec();
        d.extend(std::iter::repeat(b' ').take(70_000));
        d.extend_from_slice(&small[small.iter().position(|&b| b == b'\n').unwrap() + 1..]);
        v.push(Doc::new(format!("^{kind}:long-blank-run"), d));
        let _ = blanks;
    }
    v
}

pub struct Inputs {
    pub corpus: Vec<Doc>,
    pub neighbours: Vec<Doc>,
    pub sequences: Vec<Doc>,
}

pub fn inputs(kind: &str, tier: Tier) -> Inputs {
    inputs_seq(kind, tier, 3)
}

pub fn inputs_seq(kind: &str, tier: Tier, seq_len: usize) -> Inputs {
    let corpus = dedup_docs(corpus(kind));
    let mut nb = Vec::new();
    for d in &corpus {
        if tier == Tier::Quick && d.bytes.len() > 70 {
            continue;
        }
        nb.extend(single_edit_neighbours(d, &MARKERS));
    }
    // every byte value at every position of the short corpus documents
    for d in &corpus {
        let base = d.name.rsplit(':').next().unwrap_or("");
        let quick_base = matches!(base, "std" | "assignment-first" | "and" | "tiny");
        if (tier == Tier::Quick && quick_base) || (tier == Tier::Thorough && (8..=60).contains(&d.bytes.len())) {
            nb.extend(byte_sweep(d));
        }
    }
    // number tokens followed by every byte value
    let (pre, signed): (&[u8], bool) = match kind {
        "cnf" => (b"", true),
        "wcnf" => (b"7 ", true),
        "gcnf" => (b"{1} ", true),
        _ => (b"v ", true),
    };
    nb.extend(digit_byte_docs(kind, pre, b" 0\n", signed));
    if kind == "wcnf" {
        nb.extend(digit_byte_docs("wcnf-weight", b"", b" 1 0\n", false));
    }
    // comment lines with every byte value in every lane
    match kind {
        "cnf" => nb.extend(comment_byte_docs(kind, b"p cnf 1 1\nc ", b"1 0\n")),
        "wcnf" => nb.extend(comment_byte_docs(kind, b"c ", b"p wcnf 1 1 2\n1 1 0\n")),
        "gcnf" => nb.extend(comment_byte_docs(kind, b"p gcnf 1 1 1\n{1} 1\nc ", b"0\n")),
        _ => nb.extend(comment_byte_docs(kind, b"c ", b"s SATISFIABLE\n")),
    }
    nb.extend(long_docs(kind));
    let sequences = dedup_docs(token_sequences(&tokens(kind), seq_len));
    // all short strings over a 10-symbol alphabet (arbitrary inputs)
    let mut sequences = sequences;
    sequences.extend(mc_core::generic::all_strings(b"pcnf190- \n", tier.pick(4, 6)));
    let sequences = dedup_docs(sequences);
    Inputs { corpus, neighbours: dedup_docs(nb), sequences }
}

impl Inputs {
    pub fn all(&self) -> Vec<Doc> {
        let mut v = self.corpus.clone();
        v.extend(self.neighbours.iter().cloned());
        v.extend(self.sequences.iter().cloned());
        dedup_docs(v)
    }
}

//! C06 — accepted input means what it says (BTOR2): every number returned equals the decimal text.

use crate::c03::parse_all;
use mc_core::bigdec::{add_small, canon, pow10, pow2};
use mc_core::report::Report;
use mc_core::{hex, json, show, unhex, Tier};

fn digit_runs(s: &str) -> Vec<String> {
    let mut out = Vec::new();
    let mut cur = String::new();
    for c in s.chars() {
        if c.is_ascii_digit() {
            cur.push(c);
        } else if !cur.is_empty() {
            out.push(canon(&cur));
            cur.clear();
        }
    }
    if !cur.is_empty() {
        out.push(canon(&cur));
    }
    out
}

fn boundary() -> Vec<String> {
    let mut v: Vec<String> = vec!["1".into(), "2".into(), "9".into(), "10".into()];
    for k in [7usize, 8, 9, 19, 20] {
        v.push(pow10(k));
        v.push(add_small(&pow10(k), -1));
    }
    for w in [8u32, 16, 31, 32, 63, 64] {
        for d in -1..=1 {
            v.push(add_small(&pow2(w), d));
        }
    }
    v.push(pow10(39));
    v.sort();
    v.dedup();
    v
}

/// (line template with {} for the varying number, is it a justice line)
fn templates() -> Vec<(&'static str, bool)> {
    vec![
        ("{} sort bitvec 8", false),
        ("3 sort bitvec {}", false),
        ("3 sort array {} 7", false),
        ("3 sort array 7 {}", false),
        ("3 input {}", false),
        ("{} add 5 6 7", false),
        ("3 add {} 6 7", false),
        ("3 add 5 {} 7", false),
        ("3 add 5 6 {}", false),
        ("3 ite 5 6 7 {}", false),
        ("3 slice 5 6 {} 4", false),
        ("3 slice 5 6 9 {}", false),
        ("3 uext 5 6 {}", false),
        ("3 sext 5 {} 4", false),
        ("3 init 5 {} 7", false),
        ("3 next 5 6 {}", false),
        ("3 bad {}", false),
        ("3 constraint {}", false),
        ("3 justice 2 {} 7", true),
        ("3 justice 1 {}", true),
        ("3 not 5 {} sym ; comment 42", false),
    ]
}

pub fn judge(input: &[u8], justice: bool) -> (bool, Option<(String, String)>) {
    match parse_all(input) {
        Err(e) if e.starts_with("panicked") => (false, Some(("panic".into(), e))),
        Err(_) => (false, None),
        Ok(items) => {
            // numbers in the text (without symbol / comment part) vs numbers in the returned line
            let text = String::from_utf8_lossy(input).to_string();
            let line = text.lines().next().unwrap_or("");
            let core = line.split(" sym").next().unwrap_or(line);
            let mut want = digit_runs(core);
            if justice && want.len() > 1 {
                want.remove(1); // the condition count is implicit in the returned slice
            }
            let rendered = items.first().cloned().unwrap_or_default();
            let core_r = rendered.split("symbol:").next().unwrap_or(&rendered).to_string();
            let mut got = digit_runs(&core_r);
            want.sort();
            got.sort();
            if want == got {
                (true, None)
            } else {
                (true, Some(("value-mismatch".into(), format!("the text's numbers {want:?} are returned as {got:?} ({rendered})"))))
            }
        }
    }
}

pub fn run(_tier: Tier, report: &mut Report) {
    let nums = boundary();
    let ts = templates();
    for (t, justice) in &ts {
        for n in &nums {
            for zeros in ["", "0"] {
                let line = t.replace("{}", &format!("{zeros}{n}"));
                for tail in ["\n", " ; c\n"] {
                    if line.contains(';') && tail.contains(';') {
                        continue;
                    }
                    let doc = format!("{line}{tail}").into_bytes();
                    report.evaluations += 1;
                    report.transitions += 1;
                    report.states += 1;
                    let (accepted, verdict) = judge(&doc, *justice);
                    if accepted {
                        report.nontrivial += 1;
                        report.count("accepted", 1);
                    } else {
                        report.count("rejected", 1);
                    }
                    report.outcome(format!("{accepted}:{}", verdict.is_some()));
                    if matches!(&verdict, Some((k, _)) if k == "panic") {
                        // nothing was accepted: a panic is C05's question, not C06's
                        report.count("executions_that_panicked (not judged here, see C05)", 1);
                        continue;
                    }
                    if let Some((k, why)) = verdict {
                        report.violation(format!("btor2/accepted-meaning/{k}"), format!("btor2 accepts {:?}: {why}", show(&doc)), json!({"property": "C06", "subject": "btor2", "input_hex": hex(&doc), "input": show(&doc), "justice": justice}), doc.len() as u64);
                    }
                }
            }
        }
    }
    report.completed.push(format!("{} line templates x {} boundary numbers (10^k-1, 10^k, 2^w-1..2^w+1 up to 2^64+1, 40 digits) x leading zero x trailing comment", ts.len(), nums.len()));
    report.traces = report.evaluations;
    report.sample(json!({"document": "3 sort array 18446744073709551615 7\\n", "expected_numbers": ["3", "18446744073709551615", "7"]}));
}

pub fn replay(v: &mc_core::Value) -> (bool, String) {
    let input = unhex(v["input_hex"].as_str().unwrap());
    let (accepted, verdict) = judge(&input, v["justice"].as_bool().unwrap_or(false));
    (verdict.as_ref().map_or(false, |(k, _)| k != "panic"), format!("btor2 on {:?}: accepted={accepted} {:?}\n  parse: {:?}\n", show(&input), verdict, parse_all(&input)))
}

pub const RULE: &str = "BTOR2: line templates with one varying number position (node id, sort id, bit width, array sorts, operands, slice/extension indices, assignment and output operands, justice conditions) x boundary numbers x leading zero x trailing comment; accepted => the multiset of numbers in the returned line equals the numbers written in the text (big decimals). Non-trivial = accepted documents";

/// Documents for the C05 sweep: every template (plus count positions, which C06 cannot judge
/// because a surplus operand reads as a symbol) x boundary numbers.
pub fn c05_docs() -> Vec<mc_core::generic::Doc> {
    let mut ts: Vec<&str> = templates().into_iter().map(|t| t.0).collect();
    ts.extend(["3 justice {} 4 7", "3 justice {}", "3 justice {} 4", "{} justice {} {} {}", "3 sort bitvec {} x", "3 slice 5 6 {} {}"]);
    let mut out = Vec::new();
    for t in ts {
        for n in boundary() {
            for tail in ["\n", ""] {
                out.push(mc_core::generic::Doc::new("template", format!("{}{tail}", t.replace("{}", &n)).into_bytes()));
                out.push(mc_core::generic::Doc::new("template", format!("1 sort bitvec 1\n{}{tail}", t.replace("{}", &n)).into_bytes()));
            }
        }
    }
    mc_core::generic::dedup_docs(out)
}

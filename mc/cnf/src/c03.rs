//! C03 — writing a value and parsing it back is the identity (DIMACS family).

use crate::subjects::{self, LitName};
use crate::typed::{run_typed, same_numbers, Value};
use flussab::DeferredWriter;
use flussab_cnf::{cnf, gcnf, wcnf};
use mc_core::generic::{Doc, Spec};
use mc_core::report::Report;
use mc_core::{hex, json, show, Tier};
use std::io::Write;

fn write_value<L: LitName>(kind: &str, v: &Value) -> Result<Vec<u8>, String> {
    let us = |s: &String| s.parse::<usize>().map_err(|e| format!("{s}: {e}"));
    let mut out = Vec::new();
    {
        let mut w = DeferredWriter::from_write(&mut out);
        if let Some(h) = &v.header {
            match kind {
                "cnf" => cnf::write_header(&mut w, cnf::Header { var_count: us(&h[0])?, clause_count: us(&h[1])? }),
                "wcnf" => wcnf::write_header(&mut w, wcnf::Header { var_count: us(&h[0])?, clause_count: us(&h[1])?, top_weight: h[2].parse::<u64>().map_err(|e| e.to_string())? }),
                "gcnf" => gcnf::write_header(&mut w, gcnf::Header { var_count: us(&h[0])?, clause_count: us(&h[1])?, group_count: us(&h[2])? }),
                _ => unreachable!(),
            }
        }
        for (tag, lits) in &v.clauses {
            let ls: Vec<L> = lits.iter().map(|l| l.parse::<isize>().map(L::from_dimacs).map_err(|e| format!("{l}: {e}"))).collect::<Result<_, _>>()?;
            match kind {
                "cnf" => cnf::write_clause(&mut w, &ls),
                "wcnf" => wcnf::write_clause(&mut w, tag.as_ref().unwrap().parse::<u64>().map_err(|e| e.to_string())?, &ls),
                "gcnf" => gcnf::write_clause(&mut w, us(tag.as_ref().unwrap())?, &ls),
                _ => unreachable!(),
            }
        }
        w.flush().map_err(|e| e.to_string())?;
    }
    Ok(out)
}

fn write_dyn(kind: &str, lit: &str, v: &Value) -> Result<Vec<u8>, String> {
    match lit {
        "i8" => write_value::<i8>(kind, v),
        "i16" => write_value::<i16>(kind, v),
        "i32" => write_value::<i32>(kind, v),
        "i64" => write_value::<i64>(kind, v),
        "isize" => write_value::<isize>(kind, v),
        _ => unreachable!(),
    }
}

fn max_of(lit: &str) -> i128 {
    match lit {
        "i8" => i8::MAX as i128,
        "i16" => i16::MAX as i128,
        "i32" => i32::MAX as i128,
        _ => isize::MAX as i128,
    }
}

/// All values of the small scope for (kind, literal type, ignore_header).
fn values(kind: &str, lit: &str, ignore_header: bool, tier: Tier) -> Vec<Value> {
    let max = max_of(lit);
    let alphabet: Vec<i128> = vec![1, -1, 2, -2, max - 1, -(max - 1), max, -max];
    let mut shapes: Vec<Vec<i128>> = vec![vec![]];
    for &a in &alphabet {
        shapes.push(vec![a]);
    }
    for &a in &alphabet {
        for &b in &alphabet {
            shapes.push(vec![a, b]);
        }
    }
    if tier == Tier::Thorough {
        for &a in &alphabet {
            for &b in &alphabet {
                for &c in &[1i128, -max] {
                    shapes.push(vec![a, b, c]);
                }
            }
        }
    }
    let tags: Vec<Option<String>> = match kind {
        "wcnf" => vec![Some("0".into()), Some("1".into()), Some(u64::MAX.to_string())],
        "gcnf" => vec![Some("0".into()), Some("1".into()), Some(usize::MAX.to_string())],
        _ => vec![None],
    };
    let mut lists: Vec<Vec<(Option<String>, Vec<i128>)>> = vec![vec![]];
    for (i, s) in shapes.iter().enumerate() {
        lists.push(vec![(tags[i % tags.len()].clone(), s.clone())]);
    }
    let n2 = tier.pick(12, shapes.len());
    for (i, s1) in shapes.iter().enumerate().take(n2) {
        for (j, s2) in shapes.iter().enumerate() {
            lists.push(vec![(tags[i % tags.len()].clone(), s1.clone()), (tags[(i + j + 1) % tags.len()].clone(), s2.clone())]);
        }
    }
    lists.push(vec![(tags[0].clone(), vec![1]), (tags[0].clone(), vec![]), (tags[tags.len() - 1].clone(), vec![-2, max])]);
    let mut out = Vec::new();
    for cl in lists {
        let max_var = cl.iter().flat_map(|c| c.1.iter()).map(|l| l.abs()).max().unwrap_or(0);
        let max_group: u128 = cl.iter().filter_map(|c| c.0.as_ref()).map(|g| g.parse::<u128>().unwrap()).max().unwrap_or(0);
        let clauses: Vec<(Option<String>, Vec<String>)> = cl.iter().map(|(t, l)| (t.clone(), l.iter().map(|x| x.to_string()).collect())).collect();
        // no header
        out.push(Value { header: None, clauses: clauses.clone(), status: None });
        // headers the document admits
        let mut var_counts: Vec<i128> = vec![0, max_var, max];
        if ignore_header {
            var_counts.extend([1, 2]);
        }
        var_counts.sort();
        var_counts.dedup();
        let mut clause_counts: Vec<String> = vec!["0".into(), cl.len().to_string()];
        if ignore_header {
            clause_counts.push(usize::MAX.to_string());
            clause_counts.push("1".into());
        }
        clause_counts.sort();
        clause_counts.dedup();
        for &v in &var_counts {
            if !ignore_header && v != 0 && v < max_var {
                continue;
            }
            for c in &clause_counts {
                let mut h = vec![v.to_string(), c.clone()];
                match kind {
                    "wcnf" => {
                        for top in ["0", "1", "18446744073709551615"] {
                            let mut hh = h.clone();
                            hh.push(top.into());
                            out.push(Value { header: Some(hh), clauses: clauses.clone(), status: None });
                        }
                        continue;
                    }
                    "gcnf" => {
                        let mut gcs: Vec<String> = vec!["0".into(), usize::MAX.to_string()];
                        if max_group <= usize::MAX as u128 {
                            gcs.push(max_group.to_string());
                        }
                        if ignore_header {
                            gcs.push("1".into());
                        }
                        gcs.sort();
                        gcs.dedup();
                        for g in gcs {
                            let gv: u128 = g.parse().unwrap();
                            if !ignore_header && gv != 0 && gv < max_group {
                                continue;
                            }
                            let mut hh = h.clone();
                            hh.push(g);
                            out.push(Value { header: Some(hh), clauses: clauses.clone(), status: None });
                        }
                        continue;
                    }
                    _ => {}
                }
                h.truncate(2);
                out.push(Value { header: Some(h), clauses: clauses.clone(), status: None });
            }
        }
    }
    out
}

pub fn run(tier: Tier, report: &mut Report, all_docs: &dyn Fn(&str) -> Vec<Doc>) {
    let lits: Vec<&str> = tier.pick(vec!["i8", "i32", "i16", "i64", "isize"], subjects::LITS.to_vec());
    for kind in ["cnf", "wcnf", "gcnf"] {
        for lit in &lits {
            for flag in [false, true] {
                let subject = subjects::make(kind, lit, flag);
                let vals = values(kind, lit, flag, tier);
                let name = subject.name();
                let total = mc_core::par::par_fold(
                    vals.len(),
                    mc_core::threads(),
                    Report::new,
                    |acc, i| {
                        let v = &vals[i];
                        acc.evaluations += 1;
                        acc.transitions += 2;
                        acc.states += 1;
                        if v.header.is_some() && !v.clauses.is_empty() {
                            acc.nontrivial += 1;
                        }
                        let text = match write_dyn(kind, lit, v) {
                            Ok(t) => t,
                            Err(e) => {
                                acc.machinery_errors.push(format!("C03 generator produced an unwritable value: {e}"));
                                return;
                            }
                        };
                        let verdict = match run_typed(subject.as_ref(), &text, &Spec::oneshot()) {
                            Ok(got) => same_numbers(&got, v).err().map(|e| ("differs", format!("parse(write(v)) != v: {e}; parsed {got:?}"))),
                            Err(end) => Some(("rejected", format!("the writer's output was rejected: {}", end.short()))),
                        };
                        acc.outcome(format!("{kind}:{}", verdict.as_ref().map_or("identity", |v| v.0)));
                        if let Some((k, why)) = verdict {
                            let key = format!("{kind}/roundtrip/{k}");
                            acc.violation_with(&key, text.len() as u64, || (format!("{name}: value {v:?} written as {:?}: {why}", show(&text)), json!({"property": "C03", "subject": name, "direction": "text", "input_hex": hex(&text), "input": show(&text)})));
                        }
                    },
                    |a, b| a.merge(b),
                );
                report.merge(total);
                report.count(&format!("{kind}_values"), vals.len() as u64);
            }
        }
        // direction text -> value -> text -> value on every accepted family document
        let docs = all_docs(kind);
        for lit in &lits {
            for flag in [false, true] {
                let subject = subjects::make(kind, lit, flag);
                let name = subject.name();
                let total = mc_core::par::par_fold(
                    docs.len(),
                    mc_core::threads(),
                    Report::new,
                    |acc, i| {
                        acc.evaluations += 1;
                        acc.transitions += 1;
                        if let Some((k, why)) = text_roundtrip(kind, lit, subject.as_ref(), &docs[i].bytes, acc) {
                            let key = format!("{kind}/roundtrip/{k}");
                            let input = &docs[i].bytes;
                            acc.violation_with(&key, input.len() as u64, || (format!("{name} on accepted text {:?}: {why}", show(input)), json!({"property": "C03", "subject": name, "direction": "text", "input_hex": hex(input), "input": show(input)})));
                        }
                    },
                    |a, b| a.merge(b),
                );
                report.merge(total);
            }
        }
        report.completed.push(format!("{kind}: every small-scope value (headers x <=2-3 clauses over {{+-1,+-2,+-(MAX-1),+-MAX}} x weights/groups {{0,1,max}}) for literal types {lits:?} x ignore_header, and parse-write-parse on {} family documents", docs.len()));
    }
    report.traces = report.evaluations;
    let v = Value { header: Some(vec!["127".into(), "2".into()]), clauses: vec![(None, vec!["127".into(), "-1".into()]), (None, vec![])], status: None };
    report.sample(json!({"value": format!("{v:?}"), "written_by_flussab": show(&write_dyn("cnf", "i8", &v).unwrap())}));
}

/// parse(t) accepted => parse(write(parse(t))) == parse(t)
fn text_roundtrip(kind: &str, lit: &str, subject: &dyn mc_core::subject::Subject, input: &[u8], acc: &mut Report) -> Option<(&'static str, String)> {
    let v1 = run_typed(subject, input, &Spec::oneshot()).ok()?;
    acc.count("accepted_texts_round_tripped", 1);
    acc.nontrivial += 1;
    acc.transitions += 2;
    let text = match write_dyn(kind, lit, &v1) {
        Ok(t) => t,
        Err(e) => return Some(("unwritable", format!("the parsed value cannot be written: {e}"))),
    };
    match run_typed(subject, &text, &Spec::oneshot()) {
        Ok(v2) => same_numbers(&v2, &v1).err().map(|e| ("differs", format!("parse(write(parse(t))) != parse(t): {e}; rewritten text {:?}", show(&text)))),
        Err(end) => {
            // a header that the caller asked to ignore may declare counts the rewritten document does not meet
            Some(("rejected", format!("write(parse(t)) = {:?} was rejected: {}", show(&text), end.short())))
        }
    }
}

pub fn replay(v: &mc_core::Value) -> (bool, String) {
    let name = v["subject"].as_str().unwrap();
    let subject = subjects::by_name(name);
    let kind = name.split('<').next().unwrap();
    let lit = name.split('<').nth(1).unwrap().split('>').next().unwrap();
    let input = mc_core::unhex(v["input_hex"].as_str().unwrap());
    let mut acc = Report::new();
    let mut text = format!("{name} on {:?}\n", show(&input));
    match run_typed(subject.as_ref(), &input, &Spec::oneshot()) {
        Err(end) => {
            text.push_str(&format!("  rejected: {} (a writer output must be accepted)\n", end.short()));
            (true, text)
        }
        Ok(v1) => {
            text.push_str(&format!("  parsed: {v1:?}\n"));
            match text_roundtrip(kind, lit, subject.as_ref(), &input, &mut acc) {
                Some((k, why)) => {
                    text.push_str(&format!("  {k}: {why}\n"));
                    (true, text)
                }
                None => (false, text),
            }
        }
    }
}

pub const RULE: &str = "direction value->text->value: every value of the small scope (header var count in {0, needed, L::MAX}, clause count in {0, exact} (+ usize::MAX, 1 under ignore_header), top weight {0,1,u64::MAX}, group count {0, needed, usize::MAX}; <=2-3 clauses of length <=2-3 over {+-1,+-2,+-(MAX-1),+-MAX}; weights {0,1,u64::MAX}; groups {0,1,usize::MAX}) written with flussab's writers and parsed back; direction text->value->text->value on every accepted document of the C01 families. Non-trivial = values with header and clauses / accepted texts";

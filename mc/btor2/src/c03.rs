//! C03 — write . parse is the identity (BTOR2).

use bstr::BStr;
use flussab::text::LineReader;
use flussab::{DeferredReader, DeferredWriter};
use flussab_btor2::btor2::*;
use flussab_btor2::{Config, Parser};
use mc_core::generic::Doc;
use mc_core::report::Report;
use mc_core::subject::{catch, short_loc};
use mc_core::{hex, json, show, unhex, Tier};
use std::io::Write;

pub fn write_lines(lines: &[Line]) -> Vec<u8> {
    let mut out = Vec::new();
    {
        let mut w = DeferredWriter::from_write(&mut out);
        for l in lines {
            l.write_into(&mut w);
        }
        w.flush().unwrap();
    }
    out
}

/// Parse a whole document into the Debug renderings of its lines (deep copies).
pub fn parse_all(input: &[u8]) -> Result<Vec<String>, String> {
    let r = catch(|| {
        let mut p = Parser::new(LineReader::new(DeferredReader::from_read(input)), Config::default()).map_err(|e| e.to_string())?;
        let mut out = Vec::new();
        loop {
            match p.next_line() {
                Ok(Some(l)) => out.push(format!("{l:?}")),
                Ok(None) => return Ok(out),
                Err(e) => return Err(e.to_string()),
            }
        }
    });
    match r {
        Ok(r) => r,
        Err((m, l)) => Err(format!("panicked: {m} @ {}", short_loc(&l))),
    }
}

const UNARY: [UnaryOp; 10] = [UnaryOp::Uext(0), UnaryOp::Sext(18446744073709551615), UnaryOp::Slice(7, 0), UnaryOp::Not, UnaryOp::Inc, UnaryOp::Dec, UnaryOp::Neg, UnaryOp::Redand, UnaryOp::Redor, UnaryOp::Redxor];
const BINARY: [BinaryOp; 40] = [
    BinaryOp::Iff, BinaryOp::Implies, BinaryOp::Eq, BinaryOp::Neq, BinaryOp::Ugt, BinaryOp::Sgt, BinaryOp::Ugte, BinaryOp::Sgte, BinaryOp::Ult, BinaryOp::Slt, BinaryOp::Ulte, BinaryOp::Slte, BinaryOp::And, BinaryOp::Nand, BinaryOp::Nor,
    BinaryOp::Or, BinaryOp::Xnor, BinaryOp::Xor, BinaryOp::Rol, BinaryOp::Ror, BinaryOp::Sll, BinaryOp::Sra, BinaryOp::Srl, BinaryOp::Add, BinaryOp::Mul, BinaryOp::Udiv, BinaryOp::Sdiv, BinaryOp::Smod, BinaryOp::Urem, BinaryOp::Srem,
    BinaryOp::Sub, BinaryOp::Uaddo, BinaryOp::Saddo, BinaryOp::Sdivo, BinaryOp::Umulo, BinaryOp::Smulo, BinaryOp::Usubo, BinaryOp::Ssubo, BinaryOp::Concat, BinaryOp::Read,
];
const TERNARY: [TernaryOp; 2] = [TernaryOp::Ite, TernaryOp::Write];
const IDS: [u64; 4] = [1, 9, 10, u64::MAX];

fn const_strings() -> Vec<String> {
    let alpha = ['0', '1', '2', '9', 'a', 'f', 'F', 'g', '-'];
    let mut out = vec![String::new()];
    let mut level = vec![String::new()];
    for _ in 0..3 {
        let mut next = Vec::new();
        for p in &level {
            for c in alpha {
                let mut q = p.clone();
                q.push(c);
                next.push(q);
            }
        }
        out.extend(next.iter().cloned());
        level = next;
    }
    // every ASCII character and a set of non-ASCII ones (digits of other scripts, superscripts,
    // fractions, full-width forms, blanks) alone, after "1", before "1", after "-" and between digits
    let mut chars: Vec<char> = (0u8..128).map(|b| b as char).collect();
    chars.extend(['\u{0663}', '\u{0967}', '\u{00b3}', '\u{00bd}', '\u{2167}', '\u{ff11}', '\u{00e9}', '\u{00a0}', '\u{2003}', '\u{1d7d9}', '\u{0661}']);
    for c in chars {
        out.push(format!("{c}"));
        out.push(format!("1{c}"));
        out.push(format!("{c}1"));
        out.push(format!("-{c}"));
        out.push(format!("1{c}0"));
        out.push(format!("{c}{c}"));
    }
    out.sort();
    out.dedup();
    out
}

fn check_line(line: &Line, acc: &mut Report, what: &str) {
    acc.evaluations += 1;
    acc.transitions += 2;
    acc.states += 1;
    let written = catch(|| write_lines(std::slice::from_ref(line)));
    let text = match written {
        Ok(t) => t,
        Err((m, l)) => {
            acc.violation(format!("btor2/roundtrip/writer-panic"), format!("writing {line:?} panicked: {m} @ {l}"), json!({"property": "C03", "note": "writer panic"}), 0);
            return;
        }
    };
    let expected = format!("{line:?}");
    let verdict = match parse_all(&text) {
        Ok(items) if items.len() == 1 && items[0] == expected => None,
        Ok(items) => Some(("differs", format!("parse(write(v)) != v: parsed {items:?}, written value {expected}"))),
        Err(e) => Some(("rejected", format!("the writer's output was rejected: {e}"))),
    };
    if matches!(line, Line::Node(n) if n.symbol.is_some() || n.comment.is_some()) {
        acc.nontrivial += 1;
    }
    acc.outcome(format!("{what}:{}", verdict.as_ref().map_or("identity", |v| v.0)));
    if let Some((k, why)) = verdict {
        let key = format!("btor2/roundtrip/{k}/{what}");
        acc.violation_with(&key, text.len() as u64, || (format!("Line::write_into wrote {:?}: {why}", show(&text)), json!({"property": "C03", "subject": "btor2", "direction": "written-text", "input_hex": hex(&text), "input": show(&text), "expected": [expected]})));
    }
}

pub fn run(tier: Tier, report: &mut Report, family_docs: &[Doc]) {
    let syms: Vec<Option<&[u8]>> = vec![None, Some(b"a"), Some(b"a;b"), Some(b"\xff\xfe"), Some(b"0")];
    let comments: Vec<Option<&[u8]>> = vec![None, Some(b""), Some(b" x"), Some(b";;"), Some(b"\xffy")];
    let id = |x: u64| NodeId::new(x);
    // every Line shape
    let mut variants: Vec<(String, NodeVariant)> = Vec::new();
    for w in IDS {
        variants.push(("sort".into(), NodeVariant::Sort(Sort::bit_vec(w))));
    }
    for a in IDS {
        for b in [1u64, u64::MAX] {
            variants.push(("sort".into(), NodeVariant::Sort(Sort::Array(Array(id(a), id(b))))));
        }
    }
    for s in IDS {
        for c in [Const::One, Const::Ones, Const::Zero] {
            variants.push(("const".into(), NodeVariant::Value(Value { sort: id(s), variant: ValueVariant::Const(c) })));
        }
        variants.push(("input".into(), NodeVariant::Value(Value { sort: id(s), variant: ValueVariant::Input })));
        variants.push(("state".into(), NodeVariant::Value(Value { sort: id(s), variant: ValueVariant::State })));
    }
    for (k, op) in UNARY.iter().enumerate() {
        for a in IDS {
            variants.push(("unary".into(), NodeVariant::Value(Value { sort: id(IDS[k % 4]), variant: ValueVariant::Op(Op::Unary(*op, id(a))) })));
        }
    }
    for (u, l) in [(0u64, 0u64), (u64::MAX, 1), (10, 9)] {
        variants.push(("unary".into(), NodeVariant::Value(Value { sort: id(2), variant: ValueVariant::Op(Op::Unary(UnaryOp::Slice(u, l), id(3))) })));
        variants.push(("unary".into(), NodeVariant::Value(Value { sort: id(2), variant: ValueVariant::Op(Op::Unary(UnaryOp::Uext(u), id(3))) })));
        variants.push(("unary".into(), NodeVariant::Value(Value { sort: id(2), variant: ValueVariant::Op(Op::Unary(UnaryOp::Sext(l), id(3))) })));
    }
    for (k, op) in BINARY.iter().enumerate() {
        for a in [1u64, u64::MAX] {
            variants.push(("binary".into(), NodeVariant::Value(Value { sort: id(IDS[k % 4]), variant: ValueVariant::Op(Op::Binary(*op, [id(a), id(IDS[(k + 1) % 4])])) })));
        }
    }
    for op in TERNARY {
        for a in IDS {
            variants.push(("ternary".into(), NodeVariant::Value(Value { sort: id(a), variant: ValueVariant::Op(Op::Ternary(op, [id(a), id(1), id(u64::MAX)])) })));
        }
    }
    for kind in [AssignmentKind::Init, AssignmentKind::Next] {
        for a in IDS {
            variants.push(("assignment".into(), NodeVariant::Assignment(Assignment { state: id(a), sort: id(2), kind, value: id(u64::MAX) })));
        }
    }
    for kind in [SingleValueOutputKind::Output, SingleValueOutputKind::Bad, SingleValueOutputKind::Constraint, SingleValueOutputKind::Fair] {
        for a in IDS {
            variants.push(("output".into(), NodeVariant::Output(Output::SingleValue(SingleValueOutput { kind, value: id(a) }))));
        }
    }
    let just: [Vec<NodeId>; 3] = [vec![id(1)], vec![id(u64::MAX), id(9)], vec![id(10), id(10), id(1)]];
    for j in &just {
        variants.push(("justice".into(), NodeVariant::Output(Output::Justice(j))));
    }
    report.count("line_shapes", variants.len() as u64);
    let total = mc_core::par::par_fold(
        variants.len(),
        mc_core::threads(),
        Report::new,
        |acc, i| {
            let (what, variant) = &variants[i];
            for nid in IDS {
                for s in &syms {
                    for c in &comments {
                        let line = Line::Node(Node { id: id(nid), variant: *variant, symbol: s.map(BStr::new), comment: c.map(BStr::new) });
                        check_line(&line, acc, what);
                    }
                }
            }
        },
        |a, b| a.merge(b),
    );
    report.merge(total);
    for c in [&b""[..], b" x", b";;", b"a comment", b"\xff"] {
        check_line(&Line::Comment(BStr::new(c)), report, "comment");
    }
    // constants: whatever a public constructor accepts is in the domain and must round-trip
    let strings = const_strings();
    let mut accepted = 0;
    for s in &strings {
        let mut consts: Vec<(&str, Const)> = Vec::new();
        if let Ok(c) = BinaryConst::try_from(s.as_str()) {
            consts.push(("const-binary", Const::Binary(c)));
        }
        if let Ok(c) = DecimalConst::try_from(s.as_str()) {
            consts.push(("const-decimal", Const::Decimal(c)));
        }
        if let Ok(c) = HexConst::try_from(s.as_str()) {
            consts.push(("const-hex", Const::Hex(c)));
        }
        for (what, c) in consts {
            accepted += 1;
            for sym in [None, Some(&b"s"[..])] {
                let line = Line::Node(Node { id: id(5), variant: NodeVariant::Value(Value { sort: id(2), variant: ValueVariant::Const(c) }), symbol: sym.map(BStr::new), comment: None });
                check_line(&line, report, what);
            }
        }
    }
    report.count("constant_strings_tried", strings.len() as u64);
    report.count("constants_accepted_by_a_constructor", accepted);
    report.completed.push(format!("value -> text -> value: {} node shapes (every sort form, 10 unary / 40 binary / 2 ternary operators, constants, init/next, 4 single outputs, justice with 1..3 conditions) x ids {{1,9,10,u64::MAX}} x 5 symbols x 5 comments; comment lines; every constant string of length <= 3 over {{0,1,2,9,a,f,F,g,-}} through the TryFrom constructors", variants.len()));
    // text -> value -> text -> value
    let total = mc_core::par::par_fold(
        family_docs.len(),
        mc_core::threads(),
        Report::new,
        |acc, i| {
            let input = &family_docs[i].bytes;
            acc.evaluations += 1;
            acc.transitions += 1;
            if let Some((k, why)) = text_roundtrip(input, acc) {
                let key = format!("btor2/roundtrip/{k}/text");
                acc.violation_with(&key, input.len() as u64, || (format!("btor2 on accepted text {:?}: {why}", show(input)), json!({"property": "C03", "subject": "btor2", "direction": "text", "input_hex": hex(input), "input": show(input)})));
            }
        },
        |a, b| a.merge(b),
    );
    report.merge(total);
    report.completed.push(format!("text -> value -> text -> value on {} family documents", family_docs.len()));
    report.traces = report.evaluations;
    let _ = tier;
    let l = Line::Node(Node { id: id(u64::MAX), variant: variants[variants.len() / 2].1, symbol: Some(BStr::new(b"a;b")), comment: Some(BStr::new(b";;")) });
    report.sample(json!({"value": format!("{l:?}"), "written": show(&write_lines(&[l]))}));
}

fn text_roundtrip(input: &[u8], acc: &mut Report) -> Option<(&'static str, String)> {
    // parse every line, write it immediately (the items borrow the parser's buffers)
    let r = catch(|| {
        let mut p = Parser::new(LineReader::new(DeferredReader::from_read(input)), Config::default()).map_err(|e| e.to_string())?;
        let mut rendered = Vec::new();
        let mut out = Vec::new();
        {
            let mut w = DeferredWriter::from_write(&mut out);
            loop {
                match p.next_line() {
                    Ok(Some(l)) => {
                        rendered.push(format!("{l:?}"));
                        l.write_into(&mut w);
                    }
                    Ok(None) => break,
                    Err(e) => return Err(e.to_string()),
                }
            }
            w.flush().unwrap();
        }
        Ok((rendered, out))
    });
    let (v1, text) = match r {
        Ok(Ok(x)) => x,
        _ => return None,
    };
    acc.count("accepted_texts_round_tripped", 1);
    acc.nontrivial += 1;
    match parse_all(&text) {
        Ok(v2) if v2 == v1 => None,
        Ok(v2) => Some(("differs", format!("parse(write(parse(t))) != parse(t): {v2:?} vs {v1:?}; rewritten {:?}", show(&text)))),
        Err(e) => Some(("rejected", format!("write(parse(t)) = {:?} was rejected: {e}", show(&text)))),
    }
}

pub fn replay(v: &mc_core::Value) -> (bool, String) {
    if v["input_hex"].is_null() {
        return (true, "writer panic on a generated value; re-run the check".into());
    }
    let input = unhex(v["input_hex"].as_str().unwrap());
    let mut text = format!("btor2 on {:?}\n  parse: {:?}\n", show(&input), parse_all(&input));
    if v["direction"] == "written-text" {
        let expected: Vec<String> = v["expected"].as_array().unwrap().iter().map(|x| x.as_str().unwrap().to_string()).collect();
        let ok = parse_all(&input).map_or(false, |items| items == expected);
        if !ok {
            text.push_str(&format!("  written value: {expected:?}\n"));
        }
        return (!ok, text);
    }
    let mut acc = Report::new();
    match text_roundtrip(&input, &mut acc) {
        Some((k, why)) => {
            text.push_str(&format!("  {k}: {why}\n"));
            (true, text)
        }
        None => (false, text),
    }
}

pub const RULE: &str = "BTOR2: every Line shape x ids {1,9,10,u64::MAX} x symbols {none, a, a;b, non-UTF-8, 0} x comments {none, empty, ' x', ';;', non-UTF-8}; comment lines; constants through the public TryFrom constructors on every string of length <= 3 over {0,1,2,9,a,f,F,g,-}; plus parse-write-parse on every accepted family document. Non-trivial = nodes with a symbol or comment / accepted texts";

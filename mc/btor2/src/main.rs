//! Harness binary for the BTOR2 parser (flussab-btor2).
mod c03;
mod c06;
mod catalogue;
mod gen;
mod subjects;

use mc_core::generic::{self, C01Params, C04Params, Corruption};
use mc_core::report::{parse_cli, write_out, Report};
use mc_core::subject::Subject;
use mc_core::{Budget, Tier, Value};

#[global_allocator]
static ALLOC: mc_core::alloc::Counting = mc_core::alloc::Counting;

const FORMATS: [&str; 1] = ["btor2"];

fn long_contexts() -> [&'static [u8]; 6] {
    [b"", b"1 ", b"1 sort ", b"1 sort bitvec ", b"1 sort bitvec 1\n2 input 1 ", b"1 sort bitvec 1\n2 "]
}

/// Repetition family (C05): one construct repeated N times wherever the grammar loops; see the cnf harness.
fn repetition_docs(n: usize) -> Vec<generic::Doc> {
    let mut v = Vec::new();
    for (name, filler) in [("comment-lines", &b";c\n"[..]), ("blank-lines", b"\n"), ("blanks", b" "), ("indented-blank-lines", b"  \n"), ("bare-comments", b";\n")] {
        v.push(generic::repeat_doc(&format!("btor2/{name}/front"), b"", filler, n, b"1 sort bitvec 1\n"));
        v.push(generic::repeat_doc(&format!("btor2/{name}/middle"), b"1 sort bitvec 1\n", filler, n, b"2 input 1\n"));
        v.push(generic::repeat_doc(&format!("btor2/{name}/trailer"), b"1 sort bitvec 1\n", filler, n, b""));
    }
    v.push(generic::numbered_doc("btor2/nodes", b"1 sort bitvec 1\n", n, &|k| format!("{} input 1\n", k + 2), b""));
    v.push(generic::numbered_doc("btor2/nodes-with-symbols-and-comments", b"1 sort bitvec 1\n", n, &|k| format!("{} input 1 s{k} ; c\n", k + 2), b""));
    v.push(generic::numbered_doc("btor2/chain", b"1 sort bitvec 1\n2 input 1\n", n, &|k| format!("{} and 1 {} 2\n", k + 3, k + 2), b""));
    v.push(generic::numbered_doc("btor2/sorts", b"", n, &|k| format!("{} sort bitvec {}\n", k + 1, k + 1), b""));
    v.push(generic::repeat_doc("btor2/justice-args", format!("1 sort bitvec 1\n2 input 1\n3 justice {n}").as_bytes(), b" 2", n, b"\n"));
    v.push(generic::repeat_doc("btor2/same-line-again", b"1 sort bitvec 1\n", b"2 input 1\n", n, b""));
    v
}

/// C08, "go on after an error" (see the cnf harness): the parser is asked for the next line again
/// after every syntax error; every further syntax error must lie inside the input.
fn go_on_after_error(docs: &[generic::Doc], report: &mut Report) {
    use flussab_btor2::{Config, InnerParseError, ParseError, Parser};
    let total = mc_core::par::par_fold(
        docs.len(),
        mc_core::threads(),
        Report::new,
        |acc, i| {
            let input: &[u8] = &docs[i].bytes;
            let r = mc_core::subject::catch(|| {
                let mut errs: Vec<ParseError> = Vec::new();
                match Parser::from_read(input, Config::default()) {
                    Err(e) => errs.push(e),
                    Ok(mut p) => {
                        for _ in 0..64 {
                            match p.next_line() {
                                Ok(Some(_)) => {}
                                Ok(None) => break,
                                Err(e) => {
                                    errs.push(e);
                                    if errs.len() >= 5 {
                                        break;
                                    }
                                }
                            }
                        }
                    }
                }
                errs
            });
            acc.states += 1;
            let replay = || mc_core::json!({"property": "C08", "go_on": "btor2", "input_hex": mc_core::hex(input)});
            match r {
                Err((m, l)) => {
                    acc.evaluations += 1;
                    acc.violation_with("btor2/location/go-on/panic", input.len() as u64, || (format!("btor2 on {:?}: asking again after a syntax error panicked: {m} @ {l}", mc_core::show(input)), replay()));
                }
                Ok(errs) => {
                    if errs.is_empty() {
                        return;
                    }
                    acc.evaluations += 1;
                    acc.transitions += errs.len() as u64;
                    if errs.len() > 1 {
                        acc.nontrivial += 1;
                    }
                    let breaks: Vec<usize> = input.iter().enumerate().filter(|(_, b)| **b == b'\n').map(|(i, _)| i).collect();
                    for (k, e) in errs.into_iter().enumerate().skip(1) {
                        if let InnerParseError::SyntaxError(se) = *e {
                            if let Err(why) = generic::location_in_range(input, &breaks, se.location.line, se.location.column) {
                                acc.violation_with("btor2/location/go-on/out-of-range", input.len() as u64, || (format!("btor2 on {:?}: syntax error #{} after going on ({}) at {}:{}: {why}", mc_core::show(input), k + 1, se.msg, se.location.line, se.location.column), replay()));
                                return;
                            }
                        }
                    }
                }
            }
        },
        |a, b| a.merge(b),
    );
    report.merge(total);
    report.completed.push(format!("btor2: go on after an error - the parser is asked again (up to 64 calls / 5 errors) after every syntax error on {} documents; every further syntax error must lie inside the input", docs.len()));
}

fn main() {
    mc_core::subject::install_quiet_panic_hook();
    let cli = parse_cli();
    let t0 = std::time::Instant::now();
    if cli.cmd != "replay" && mc_core::isolate::worker_spec().is_none() {
        mc_core::abortguard::install(cli.out.clone(), &cli.cmd, "btor2", cli.tier.name());
    }
    let tier = cli.tier;
    if cli.cmd == "replay" {
        let text = std::fs::read_to_string(cli.file.as_ref().expect("replay needs a file")).unwrap();
        let v: Value = mc_core::serde_json::from_str(&text).unwrap();
        let v = if v.get("replay").is_some() { v["replay"].clone() } else { v };
        if v["go_on"].as_str().is_some() {
            let mut r = Report::new();
            let input = mc_core::unhex(v["input_hex"].as_str().unwrap());
            go_on_after_error(&[generic::Doc::new("replay", input)], &mut r);
            let text: String = r.violations.values().map(|x| format!("  {}\n", x.what)).collect();
            println!("go on after an error (btor2):\n{text}");
            println!("{}", if r.violation_count > 0 { "REPLAY: property violated" } else { "REPLAY: property holds" });
            std::process::exit(if r.violation_count > 0 { 1 } else { 0 });
        }
        let subject = subjects::by_name(v["subject"].as_str().unwrap_or("btor2"));
        let (violated, text) = match v["property"].as_str().unwrap_or("") {
            "C03" => c03::replay(&v),
            "C06" => c06::replay(&v),
            "C01" | "C14" => generic::c01_replay(subject.as_ref(), &v),
            "C04" => generic::c04_replay(subject.as_ref(), &v),
            "C05" => generic::c05_replay(subject.as_ref(), &v),
            "C08" => generic::c08_replay(subject.as_ref(), &v),
            "C09" => generic::c09_replay(subject.as_ref(), &v),
            "C10" => {
                let cases = c10_cases();
                let (_, case) = cases.into_iter().find(|(_, c)| c.label == v["case"].as_str().unwrap()).expect("unknown stream case");
                generic::c10_replay(subject.as_ref(), &case, &v)
            }
            other => {
                eprintln!("mc-btor2: cannot replay property {other:?}");
                std::process::exit(2);
            }
        };
        println!("{text}");
        println!("{}", if violated { "REPLAY: property violated" } else { "REPLAY: property holds" });
        std::process::exit(if violated { 1 } else { 0 });
    }
    let mut report = Report::new();
    let budget = Budget::new(tier.pick(40.0, 1500.0));
    let rule: String = match cli.cmd.as_str() {
        "C01" => {
            for kind in FORMATS {
                let subs = subjects::subjects();
                let inp = gen::inputs(tier);
                let params = C01Params {
                    all_len: tier.pick(9, 12),
                    dev_bound: 2,
                    dev_interrupts: 1,
                    dev2_max_len: tier.pick(48, 120),
                    uni: tier.pick(vec![1, 2, 3, 7, 8, 9], (1..=17).collect()),
                    chunks: tier.pick(vec![Some(1), Some(3), Some(8), None], vec![Some(1), Some(2), Some(3), Some(7), Some(8), Some(9), Some(16), None]),
                };
                let mut docs = inp.all();
                docs.extend(generic::long_token_docs(&long_contexts()).into_iter().map(|d| generic::Doc::new(format!("~{}", d.name), d.bytes)));
                report.count(&format!("{kind}_documents"), docs.len() as u64);
                report.count(&format!("{kind}_subjects"), subs.len() as u64);
                generic::c01(&subs, &docs, &params, &budget, &mut report);
                if !budget.expired() {
                    report.completed.push(format!("{kind}: {} documents (corpus {}, single-edit neighbours {}, token sequences {}) x {} subjects: ALL(n<={}) + DEV({}) with <=1 Interrupted + UNI{:?} x chunks {:?}", docs.len(), inp.corpus.len(), inp.neighbours.len(), inp.sequences.len(), subs.len(), params.all_len, params.dev_bound, params.uni, params.chunks));
                }
                sample_docs(&mut report, kind, &inp.corpus);
                let small: Vec<generic::Doc> = inp.corpus.iter().cloned().chain(inp.neighbours.iter().filter(|d| d.bytes.len() <= 24).cloned()).collect();
                generic::c01_constructors(&subjects::Btor2, &small, &|b| subjects::via_constructors(b), &mut report);
            }
            report.traces = report.evaluations;
            "inputs = hand-written corpus of well-formed documents per parser + all their single-edit neighbours (every truncation, every byte deleted, every byte replaced by each of 8 marker bytes) + all concatenations of up to 2 (quick) / 3 (thorough) tokens of a per-format token alphabet, deduplicated; schedules = every composition of the input into reads (with up to one Interrupted anywhere) for short inputs, all schedules with a bounded number of deviations from the one-shot schedule for longer ones, and uniform grains x chunk sizes; every execution compared with the one-shot execution. Non-trivial = at least two successful reads (a refill happened mid-document)".into()
        }
        "C04" => {
            for kind in FORMATS {
                let subs = subjects::subjects();
                let inp = gen::inputs(tier);
                let mut docs = inp.corpus.clone();
                if tier == Tier::Thorough {
                    docs.extend(inp.neighbours.iter().cloned());
                } else {
                    // truncations and garbage neighbours of the two shortest well-formed documents
                    docs.extend(inp.neighbours.iter().filter(|d| d.bytes.len() <= 30).cloned());
                }
                docs.extend(inp.sequences.iter().filter(|d| d.bytes.len() <= 12).cloned());
                let docs = generic::dedup_docs(docs);
                let params = C04Params { max_len: tier.pick(120, 400), uni: vec![1, 3], dev_bound: 1, dev_max_len: tier.pick(40, 120) };
                report.count(&format!("{kind}_documents"), docs.len() as u64);
                generic::c04(&subs, &docs, &params, &budget, &mut report);
                if !budget.expired() {
                    report.completed.push(format!("{kind}: {} documents x {} subjects x every fault offset 0..=len x {{one-shot, UNI(1), UNI(3) (chunk default and =grain), all single cuts for len<={}}}", docs.len(), subs.len(), params.dev_max_len));
                }
                sample_docs(&mut report, kind, &inp.corpus);
            }
            report.traces = report.evaluations;
            "every document x every fault offset k in 0..=len (the source delivers k bytes, then fails permanently) x schedules of the delivered prefix; compared with the fault-free run. Non-trivial = fault offset strictly inside a token or at the very end (after a construct that accepts end of input)".into()
        }
        "C05" => {
            let mut groups = Vec::new();
            for kind in FORMATS {
                let subs = subjects::subjects();
                groups.push((format!("{kind}-repetitions"), subjects::subjects(), repetition_docs(if generic::deep_profile() { 200_000 } else { tier.pick(100_000, 300_000) })));
                if generic::deep_profile() {
                    continue;
                }
                let inp = gen::inputs_seq(tier, tier.pick(3, 4));
                sample_docs(&mut report, kind, &inp.sequences);
                let mut docs = inp.all();
                docs.extend(c06::c05_docs());
                let contexts = long_contexts();
                docs.extend(generic::long_token_docs(&contexts));
                groups.push((kind.to_string(), subs, generic::dedup_docs(docs)));
            }
            generic::c05_isolated(&groups, tier.pick(40.0, 1500.0), &mut report);
            report.traces = report.evaluations;
            "every document of the generated families x every subject x {one-shot, byte-wise}, each (subject, document) unit run in an isolated single-threaded worker process: the run must return a value (no panic incl. overflow / debug assertion in the checked build, no abort, no stack overflow, no hang), within 2 s, with peak requested heap <= 64 x consumed bytes + 2 MiB + 4 chunks (counting allocator, per thread). Non-trivial: every case (each is a distinct input x subject). Repetition family: one construct (comment line, blank line, blanks, node line, sort line, chained node, justice argument) repeated 100 000 - 300 000 times; the quick tier runs it in the UNOPTIMISED profile as well (opt-level 0: recursion that an optimiser turns into a loop overflows the stack only there)".into()
        }
        "C08" => {
            for kind in FORMATS {
                let subs = subjects::subjects();
                let inp = gen::inputs(tier);
                let docs = inp.all();
                let cat = catalogue::corruptions();
                report.count(&format!("{kind}_corruptions"), cat.len() as u64);
                let mut pairs: Vec<(usize, Corruption)> = Vec::new();
                for c in cat {
                    for si in 0..subs.len() {
                        pairs.push((si, Corruption { doc: c.doc.clone(), line: c.line, col_first: c.col_first, col_last: c.col_last, what: c.what.clone() }));
                    }
                }
                generic::c08(&subs, &docs, &pairs, tier, &budget, &mut report);
                {
                    let mut more = docs.clone();
                    for t in [&b"1 sort bitvec 1
2 input X
3 input 1
4 Y 1
5 input 1 ; c
6 and 1 Z 3
"[..], b"X

Y
; c
Z", b"1 sort bitvec 1
2 input 1 a b
3 input 1
4 input
"] {
                        more.push(generic::Doc::new("multi-error", t.to_vec()));
                    }
                    go_on_after_error(&more, &mut report);
                }
                report.completed.push(format!("{kind}: in-range clause on {} documents x {} subjects x schedules; exact-location clause on {} (corruption, subject) pairs", docs.len(), subs.len(), pairs.len()));
                sample_docs(&mut report, kind, &inp.corpus);
            }
            report.traces = report.evaluations;
            "(a) every generated document x subject x {one-shot, byte-wise with chunk 1, 3 bytes with chunk 3, byte-wise, 7 bytes with chunk 16}: a reported syntax error must lie inside the input (1<=line<=lines+1, 1<=column<=len(line)+1); (b) well-formed base documents x every token x catalogue {garbage token, overflowing number, literal/group out of range, missing separator, clause count off by one}: line = the token's line, column on the token. Non-trivial = runs ending in a syntax error".into()
        }
        "C09" => {
            for kind in FORMATS {
                let subs = subjects::subjects();
                let inp = gen::inputs(tier);
                generic::c09(&subs, &inp.corpus, tier, &budget, &mut report);
                generic::c09_finish();
                report.completed.push(format!("{kind}: {} corpus documents x {} streaming subjects, line gated source, DEV(1..2) x chunk sizes", inp.corpus.len(), subs.len()));
                sample_docs(&mut report, kind, &inp.corpus);
            }
            report.traces = report.evaluations;
            "every well-formed corpus document x streaming subject, delivered by a source that hands out at most the rest of the current line per read (choice: any shorter amount; deviation bounded) x chunk sizes; at the moment each item is returned the source must not have been asked beyond the line that completes the item (completing line = line containing the end of the shortest prefix on which the parser, given end of input, returns the same item)".into()
        }
        "C03" => {
            c03::run(tier, &mut report, &gen::inputs_seq(tier, tier.pick(3, 4)).all());
            c03::RULE.into()
        }
        "C06" => {
            c06::run(tier, &mut report);
            c06::RULE.into()
        }
        "C14" => {
            // the BTOR2 keyword scanner's raw 8-byte loads: every keyword at every alignment, every
            // single cut of the input into two reads and every grain x chunk size; a load that looks
            // at bytes which are not buffered yet shows up as a result that depends on the schedule
            let mut docs = Vec::new();
            let mut kws: Vec<String> = gen::UNARY.iter().chain(gen::BINARY.iter()).chain(gen::TERNARY.iter()).map(|s| s.to_string()).collect();
            kws.extend(["sort", "init", "next", "bad", "constraint", "fair", "output", "justice", "const", "constd", "consth", "ones", "one", "zero", "input", "state", "uext", "sext", "slice"].iter().map(|s| s.to_string()));
            for kw in &kws {
                for shift in [0usize, 3, 7, 8, 9, 15] {
                    let mut d = Vec::new();
                    if shift > 0 {
                        d.push(b';');
                        d.extend(std::iter::repeat(b'x').take(shift - 1));
                        d.push(b'\n');
                    }
                    d.extend_from_slice(format!("7 {kw} 2 3 4 5 6\n8 {kw}x 1\n").as_bytes());
                    docs.push(generic::Doc::new(format!("kw:{kw}@{shift}"), d));
                }
            }
            docs.extend(gen::corpus());
            let docs = generic::dedup_docs(docs);
            let params = C01Params { all_len: 0, dev_bound: 1, dev_interrupts: 0, dev2_max_len: 0, uni: (1..=17).collect(), chunks: vec![Some(1), Some(3), Some(8), Some(9), Some(16), None] };
            generic::c01_as("C14", &subjects::subjects(), &docs, &params, &budget, &mut report);
            report.traces = report.evaluations;
            report.completed.push(format!("{} documents (every keyword at 6 alignments, plus the corpus) x every single cut + uniform grains 1..17 x chunk sizes", docs.len()));
            "BTOR2 keyword scanner (raw 8-byte loads guarded by buf_len() >= offset + 8): every keyword x alignment x every two-read schedule x uniform grains x chunk sizes, result compared with the one-shot run; a load of not-yet-buffered bytes makes the result depend on the schedule".into()
        }
        "C10" => {
            generic::c10_streams(&c10_cases(), tier, &mut report);
            report.traces = report.evaluations;
            "parser half: BTOR2 documents generated on the fly streamed through the parser at two lengths x chunk sizes x read grains; peak live heap bounded by 16*chunk + 32*max_item + 8 KiB and independent of the length".into()
        }
        other => {
            eprintln!("mc-btor2: unknown property {other:?}");
            std::process::exit(2);
        }
    };
    let v = report.to_json(&cli.cmd, "btor2", tier.name(), t0.elapsed().as_secs_f64(), &rule);
    write_out(&cli, &v);
}

fn c10_cases() -> Vec<(Box<dyn Subject>, generic::StreamCase)> {
    vec![
        (Box::new(subjects::Btor2) as Box<dyn Subject>, generic::StreamCase { label: "btor2-blank-line-run".into(), prefix: vec![], period: b"\n".to_vec(), suffix: b"1 sort bitvec 1\n".to_vec(), max_item: 16 }),
        (Box::new(subjects::Btor2) as Box<dyn Subject>, generic::StreamCase { label: "btor2-indented-blank-run".into(), prefix: b"1 sort bitvec 1\n".to_vec(), period: b"  \n \n".to_vec(), suffix: b"; end".to_vec(), max_item: 16 }),
        (Box::new(subjects::Btor2) as Box<dyn Subject>, generic::StreamCase { label: "btor2-comment-run".into(), prefix: vec![], period: b"; a comment line\n\n  \n".to_vec(), suffix: b"1 sort bitvec 1\n".to_vec(), max_item: 20 }),
        // ids, sorts and names that never repeat: nothing may be remembered per line
        (Box::new(subjects::Btor2) as Box<dyn Subject>, generic::StreamCase { label: "btor2-distinct-sorts".into(), prefix: vec![], period: b"######## sort bitvec 8\n".to_vec(), suffix: vec![], max_item: 24 }),
        (Box::new(subjects::Btor2) as Box<dyn Subject>, generic::StreamCase { label: "btor2-distinct-nodes".into(), prefix: b"1 sort bitvec 8\n2 sort array 1 1\n".to_vec(), period: b"######## input 1 n######## ; c########\n######## sort array 1 1\n".to_vec(), suffix: vec![], max_item: 48 }),
        (
        Box::new(subjects::Btor2) as Box<dyn Subject>,
        generic::StreamCase { label: "btor2".into(), prefix: b"1 sort bitvec 8\n".to_vec(), period: b"2 input 1 name ; comment\n3 add 1 2 2\n; a comment line\n4 constd 1 123\n5 justice 3 2 3 4\n".to_vec(), suffix: vec![], max_item: 26 },
    )]
}

fn sample_docs(report: &mut Report, kind: &str, docs: &[mc_core::generic::Doc]) {
    for d in docs.iter().skip(1).take(1) {
        report.sample(mc_core::json!({"family": kind, "document": d.name, "bytes": mc_core::show(&d.bytes)}));
    }
}

#[allow(dead_code)]
fn unused(_: &dyn Subject) {}

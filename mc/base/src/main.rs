//! Harness binary for the properties anchored in the `flussab` core crate
//! (reader, writer, text scanners, combinators).
mod c10;
mod c08_linereader;
mod c13;
mod c15;
mod c16;
mod reader_mc;
mod writer_mc;

use mc_core::report::{parse_cli, write_out, Report};
use mc_core::Value;

fn main() {
    mc_core::subject::install_quiet_panic_hook();
    let cli = parse_cli();
    let t0 = std::time::Instant::now();
    if cli.cmd != "replay" && mc_core::isolate::worker_spec().is_none() {
        mc_core::abortguard::install(cli.out.clone(), &cli.cmd, "base", cli.tier.name());
    }
    if cli.cmd == "replay" {
        let text = std::fs::read_to_string(cli.file.as_ref().expect("replay needs a file")).unwrap();
        let v: Value = mc_core::serde_json::from_str(&text).unwrap();
        let v = if v.get("replay").is_some() { v["replay"].clone() } else { v };
        let (violated, text) = match v["property"].as_str().unwrap_or("") {
            "C02" | "C09" | "C14" if v["subject"] == "DeferredReader" => reader_mc::replay_file(&v),
            "C11" | "C14" if v["subject"] == "DeferredWriter" => writer_mc::replay_file(&v),
            "C13" => c13::replay(&v),
            "C08" => c08_linereader::replay(&v),
            "C14" if v["subject"] == "digit scanners" => c13::replay(&v),
            "C14" if v["subject"] == "text scanners" => c16::replay(&v),
            "C15" => c15::replay(&v),
            "C16" => c16::replay(&v),
            other => {
                eprintln!("mc-base: cannot replay property {other:?}");
                std::process::exit(2);
            }
        };
        println!("{text}");
        println!("{}", if violated { "REPLAY: property violated" } else { "REPLAY: property holds" });
        std::process::exit(if violated { 1 } else { 0 });
    }
    let mut report = Report::new();
    let rule: String = match cli.cmd.as_str() {
        "C15" => {
            c15::run(cli.tier, &mut report);
            c15::RULE.into()
        }
        "C02" => {
            reader_mc::run(reader_mc::Mode::C02, cli.tier, &mut report);
            reader_mc::RULE_C02.into()
        }
        "C09" => {
            reader_mc::run(reader_mc::Mode::C09, cli.tier, &mut report);
            reader_mc::RULE_C02.into()
        }
        "C10" => {
            c10::run(cli.tier, &mut report);
            c10::RULE.into()
        }
        "C11" => {
            writer_mc::run(writer_mc::Mode::C11, cli.tier, &mut report);
            writer_mc::RULE.into()
        }
        "C14" => {
            let t = std::time::Instant::now();
            reader_mc::run(reader_mc::Mode::C14, cli.tier, &mut report);
            report.notes.push(format!("reader search: {:.1}s", t.elapsed().as_secs_f64()));
            let t = std::time::Instant::now();
            writer_mc::run(writer_mc::Mode::C14, cli.tier, &mut report);
            report.notes.push(format!("writer search: {:.1}s", t.elapsed().as_secs_f64()));
            let t = std::time::Instant::now();
            c13::stale_window_family(cli.tier, &mut report);
            report.notes.push(format!("digit scanners, stale window: {:.1}s", t.elapsed().as_secs_f64()));
            let t = std::time::Instant::now();
            c16::displaced_family(cli.tier, &mut report);
            report.notes.push(format!("text scanners, displaced cursor: {:.1}s", t.elapsed().as_secs_f64()));
            format!("READER: {} || WRITER: {} || TEXT SCANNERS: tabs_or_spaces / newline / next_newline / fixed on every short string with a displaced cursor (the first refill inside the scan realigns the buffer), all read schedules, against the reference offsets and exact look-ahead || DIGIT SCANNERS: every short string x offset x 1..=8 bytes buffered with stale digits right behind the buffered window (the buffer was realigned by the refill that delivered them) x rest at once / byte-wise x 4 scanners x 3 types; the result must be the reference result for the text alone (a raw load beyond the buffered data changes it)", reader_mc::RULE_C02, writer_mc::RULE)
        }
        "C08" => {
            c08_linereader::run(cli.tier, &mut report);
            c08_linereader::RULE.into()
        }
        "C13" => {
            c13::run(cli.tier, &mut report);
            c13::RULE.into()
        }
        "C16" => {
            c16::run(cli.tier, &mut report);
            c16::RULE.into()
        }
        other => {
            eprintln!("mc-base: unknown property {other:?}");
            std::process::exit(2);
        }
    };
    let v = report.to_json(&cli.cmd, "base", cli.tier.name(), t0.elapsed().as_secs_f64(), &rule);
    write_out(&cli, &v);
}

#!/usr/bin/env python3
"""Development aid: write seeded/<id>/meta.json for one seeding round.
  store_meta.py <round> <missed.json>   missed.json: {"C05-23": {"strengthening": "...", "detected_by_other_check": null}, ...}
Reads the title from notes.md (first line), 'needs to manifest' from the notes, the three confirmation
runs from seeded/CONFIRM.log."""
import json, os, re, sys
rnd = int(sys.argv[1]); missed = json.load(open(sys.argv[2])); suffixes = sys.argv[3:]
R = "/verif/seeded"
conf = {}
for l in open(os.path.join(R, "CONFIRM.log")):
    m = re.match(r"id=(C\d\d) n=(\d+) place=(\S+) baseline_with_patch\(pass/fail\)=(\S+) demo_with_patch=(\S+) demo_without_patch=(\S+)", l)
    if m:
        conf["%s-%s" % (m.group(1), m.group(2))] = m.groups()[2:]
for d in sorted(os.listdir(R)):
    if not re.match(r"C\d\d-\d+$", d) or d.split("-")[1] not in suffixes:
        continue
    notes = open(os.path.join(R, d, "notes.md")).read() if os.path.exists(os.path.join(R, d, "notes.md")) else ""
    title = notes.splitlines()[0].lstrip("# ").strip() if notes else d
    needs = ""
    m = re.search(r"(?is)(needs? (?:in order )?to manifest|what is needed|needed for it to manifest|to manifest)[^\n]*\n(.*?)(\n#|\n\*\*|\n\n[A-Z#]|\Z)", notes)
    if m:
        needs = re.sub(r"\s+", " ", m.group(2)).strip()[:900]
    place, base, w, wo = conf[d]
    miss = missed.get(d)
    meta = {
        "property": d.split("-")[0], "seed": int(d.split("-")[1]), "round": rnd,
        "source": "fresh sub-agent given the property text including the mechanisms its authors named, the titles of the earlier seeds of that property to avoid, and a scratch worktree of /repo (nothing from /verif)",
        "title": title, "needs_to_manifest": needs or "see notes.md",
        "confirmed": {"patch_applies_to_head": True, "baseline_suite_with_patch(pass/fail)": base, "demo_with_patch(pass/fail)": w, "demo_without_patch(pass/fail)": wo,
                      "how": "re-run by me in the scratch worktree (tools/confirm_seed.sh): git apply; cargo test --workspace --offline; demo test with and without the patch"},
        "demo_location": place,
        "detection": {"check": "./check %s quick" % d.split("-")[0], "first_run_detected": miss is None, "after_strengthening_detected": True,
                      "detected_by_other_check": (miss or {}).get("detected_by_other_check"), "strengthening": (miss or {}).get("strengthening")},
    }
    json.dump(meta, open(os.path.join(R, d, "meta.json"), "w"), indent=1, ensure_ascii=False)
    print(d, "ok", "MISSED first pass" if miss else "")

//! Deterministic parallel map over independent sub-spaces.

use std::sync::atomic::{AtomicUsize, Ordering};
use std::sync::Mutex;

/// Apply `f` to every index `0..n` on `threads` workers; results are returned in index order.
/// `f` gets the index. Work is handed out dynamically, results do not depend on the schedule.
pub fn par_map<R: Send>(n: usize, threads: usize, f: impl Fn(usize) -> R + Sync) -> Vec<R> {
    let threads = threads.max(1).min(n.max(1));
    if threads == 1 {
        return (0..n).map(f).collect();
    }
    let next = AtomicUsize::new(0);
    let out: Mutex<Vec<Option<R>>> = Mutex::new((0..n).map(|_| None).collect());
    std::thread::scope(|s| {
        for _ in 0..threads {
            s.spawn(|| loop {
                let i = next.fetch_add(1, Ordering::Relaxed);
                if i >= n {
                    break;
                }
                let r = f(i);
                out.lock().unwrap()[i] = Some(r);
            });
        }
    });
    out.into_inner().unwrap().into_iter().map(|r| r.expect("worker died")).collect()
}

/// Like `par_map` but every worker folds its results locally (`fold`) and the per-worker
/// accumulators are merged at the end (`merge` must be commutative and associative).
pub fn par_fold<A: Send>(
    n: usize,
    threads: usize,
    init: impl Fn() -> A + Sync,
    f: impl Fn(&mut A, usize) + Sync,
    mut merge: impl FnMut(&mut A, A),
) -> A {
    let next = AtomicUsize::new(0);
    let threads = threads.max(1).min(n.max(1));
    let accs: Mutex<Vec<A>> = Mutex::new(Vec::new());
    std::thread::scope(|s| {
        for _ in 0..threads {
            s.spawn(|| {
                let mut acc = init();
                loop {
                    let i = next.fetch_add(1, Ordering::Relaxed);
                    if i >= n {
                        break;
                    }
                    f(&mut acc, i);
                }
                accs.lock().unwrap().push(acc);
            });
        }
    });
    let mut all = accs.into_inner().unwrap();
    let mut total = init();
    for a in all.drain(..) {
        merge(&mut total, a);
    }
    total
}

#!/usr/bin/env python3
"""Regenerate MANIFEST.json from checks.json, pending.json and properties.jsonl."""
import json, os, subprocess
R = os.path.dirname(os.path.dirname(os.path.abspath(__file__)))
spec = json.load(open(os.path.join(R, "checks.json")))
pending = json.load(open(os.path.join(R, "pending.json"))) if os.path.exists(os.path.join(R, "pending.json")) else {}
props = [json.loads(l) for l in open(os.path.join(R, "properties.jsonl"))]
hooks = subprocess.run(["git", "-C", "/repo", "log", "--format=%h %s"], stdout=subprocess.PIPE, text=True).stdout.splitlines()
hook_commits = [l.split()[0] for l in hooks if l.split(" ", 1)[1].startswith("verif hook")]
checks, na = [], []
for p in props:
    i = p["id"]
    if i in spec:
        s = spec[i]
        c = {
            "property_id": i,
            "quick_cmd": "./check %s quick" % i,
            "thorough_cmd": "./check %s thorough" % i,
            "evidence_file": "/verif/evidence/%s.json" % i,
            "replay_cmd_template": "./check replay {path}",
            "engine": s["engine"],
            "level_claimed": {"category": s["level"], "text": s["level_text"], "design_ref": s["design_ref"]},
            "level_note": s["level_note"],
            "technique": s["technique"],
        }
        checks.append(c)
    else:
        na.append({"property_id": i, "reason": pending.get(i, "check not implemented yet (work in progress, see DESIGN.md section 8)")})
engines = {}
for i, s in spec.items():
    engines.setdefault(s["engine"], []).append(i)
ENG = {
 "E-choice": ("mc/core/src/choice.rs + source.rs", "stateless deviation-bounded DFS over the answers of a scripted Read (sizes, Interrupted, fault, EOF); every execution runs the real parser"),
 "E-bfs": ("mc/core/src/bfs.rs", "explicit-state BFS over operation histories of the real DeferredReader/DeferredWriter (replay from history, canonical key from the cfg-guarded state hook)"),
 "E-enum": ("mc/core/src/par.rs + per-property enumerators", "complete enumeration of a finite / small-scope input or program domain against a reference model"),
}
m = {
 "version": 1,
 "setup_cmd": "./check setup",
 "hooks": {
  "guard": "flussab_verif",
  "enable": "RUSTFLAGS=--cfg flussab_verif, set in /verif/mc/.cargo/config.toml (own target dir /verif/mc/target; /repo/target is untouched)",
  "baseline_off_cmd": "cd /repo && cargo test --workspace --no-fail-fast --offline",
  "source_commits": hook_commits[::-1],
  "add_only": True,
 },
 "engines": [{"name": k, "path": ENG.get(k.split(" ")[0], ("mc", ""))[0], "serves_properties": sorted(v), "kind_free_text": ENG.get(k.split(" ")[0], ("", k))[1]} for k, v in sorted(engines.items())],
 "checks": checks,
 "notes": "All checks run the real flussab code (path dependencies on /repo, rebuilt on every check). Deciding step everywhere: exhaustive enumeration within the bounds stated in each evidence file. See DESIGN.md.",
 "not_applicable": na,
}
json.dump(m, open(os.path.join(R, "MANIFEST.json"), "w"), indent=1)
print("MANIFEST.json: %d checks, %d not_applicable" % (len(checks), len(na)))

//! The BTOR2 parser as a subject.

use flussab::text::LineReader;
use flussab::DeferredReader;
use flussab_btor2::{Config, InnerParseError, ParseError, Parser};
use mc_core::subject::{End, Subject};

pub fn end_of(e: ParseError) -> End {
    match *e {
        InnerParseError::SyntaxError(s) => End::Syntax { line: s.location.line, column: s.location.column, msg: s.msg },
        InnerParseError::IoError(e) => End::Io(mc_core::source::render_io_error(&e)),
    }
}

pub struct Btor2;

impl Subject for Btor2 {
    fn name(&self) -> String {
        "btor2".into()
    }
    fn run(&self, reader: DeferredReader<'_>, emit: &mut dyn FnMut(String)) -> End {
        let mut p = match Parser::new(LineReader::new(reader), Config::default()) {
            Ok(p) => p,
            Err(e) => return end_of(e),
        };
        loop {
            match p.next_line() {
                Ok(Some(line)) => emit(format!("{line:?}")),
                Ok(None) => {
                    // a driver may ask again after the end: the answer stays "end of the input"
                    for _ in 0..2 {
                        match p.next_line() {
                            Ok(None) => {}
                            Ok(Some(_)) => emit("AFTER-END: another line was handed out after the end of the input".to_string()),
                            Err(e) => return end_of(e),
                        }
                    }
                    return End::Clean;
                }
                Err(e) => return end_of(e),
            }
        }
    }
}

pub fn by_name(_name: &str) -> Box<dyn Subject> {
    Box::new(Btor2)
}

pub fn subjects() -> Vec<Box<dyn Subject>> {
    vec![Box::new(Btor2)]
}

/// Public convenience constructors of the BTOR2 parser.
pub fn via_constructors(input: &[u8]) -> Vec<(&'static str, Vec<String>, End)> {
    use std::io::{BufRead, BufReader};
    let mut out = Vec::new();
    let mut run = |name: &'static str, p: Result<Parser<'_>, ParseError>| {
        let mut items = Vec::new();
        let end = match p {
            Err(e) => end_of(e),
            Ok(mut p) => loop {
                match p.next_line() {
                    Ok(Some(line)) => items.push(format!("{line:?}")),
                    Ok(None) => break End::Clean,
                    Err(e) => break end_of(e),
                }
            },
        };
        out.push((name, items, end));
    };
    let mut br = BufReader::with_capacity(6, input);
    let _ = br.fill_buf();
    run("from_read", Parser::from_read(input, Config::default()));
    run("from_buf_reader", Parser::from_buf_reader(br, Config::default()));
    for (name, cap) in [("from_buf_reader(capacity 0)", 0usize), ("from_buf_reader(capacity 1)", 1)] {
        let mut br = BufReader::with_capacity(cap, input);
        let _ = br.fill_buf();
        run(name, Parser::from_buf_reader(br, Config::default()));
    }
    run("from_boxed_dyn_read", Parser::from_boxed_dyn_read(Box::new(input), Config::default()));
    out
}

//! C12 — AIG renumbering preserves the circuit and yields a binary-legal order.
//!
//! E-enum: all and-inverter graphs of a small scope (well-formed and ill-formed alike) are built as
//! `Aig<L>` values: every gate input ranges over every literal of the scope (constants, both
//! polarities of every input, latch and gate incl. the gate itself and later gates — all cycles —
//! and an undefined variable); roots range over every literal; redefinition variants; variable
//! renumberings and gate list orders; all 8 option combinations. Oracle: an independent evaluator
//! computes truth tables over the free variables (inputs and latch outputs), exhaustively.

use crate::subjects::LitName;
use flussab::DeferredWriter;
use flussab_aiger::aig::{Aig, AigStructureError, AndGate, Latch, OrderedAig, Renumber, RenumberConfig, Symbol, SymbolTarget};
use flussab_aiger::binary;
use mc_core::report::Report;
use mc_core::subject::{catch, short_loc};
use mc_core::{json, Budget, Tier, Value};
use std::borrow::Cow;
use std::collections::{BTreeSet, HashMap};
use std::io::Write;

/// An AIG over plain codes (the harness' own representation).
#[derive(Clone, Debug, PartialEq, Eq)]
pub struct G {
    pub max_var: usize,
    pub inputs: Vec<usize>,
    /// (state, next, init)
    pub latches: Vec<(usize, usize, Option<bool>)>,
    /// (output, in0, in1)
    pub gates: Vec<(usize, usize, usize)>,
    pub outputs: Vec<usize>,
    pub bad: Vec<usize>,
    pub constraints: Vec<usize>,
    pub fairness: Vec<usize>,
    pub justice: Vec<Vec<usize>>,
}

impl G {
    fn roots(&self) -> Vec<usize> {
        let mut r: Vec<usize> = self.latches.iter().map(|l| l.1).collect();
        r.extend(&self.outputs);
        r.extend(&self.bad);
        r.extend(&self.constraints);
        r.extend(&self.fairness);
        for j in &self.justice {
            r.extend(j);
        }
        r
    }
    fn to_aig<L: LitName>(&self) -> Aig<L> {
        let l = |c: usize| L::from_code(c);
        Aig {
            max_var_index: self.max_var,
            inputs: self.inputs.iter().map(|&c| l(c)).collect(),
            latches: self.latches.iter().map(|&(s, n, i)| Latch { state: l(s), next_state: l(n), initialization: i }).collect(),
            outputs: self.outputs.iter().map(|&c| l(c)).collect(),
            bad_state_properties: self.bad.iter().map(|&c| l(c)).collect(),
            invariant_constraints: self.constraints.iter().map(|&c| l(c)).collect(),
            justice_properties: self.justice.iter().map(|j| j.iter().map(|&c| l(c)).collect()).collect(),
            fairness_constraints: self.fairness.iter().map(|&c| l(c)).collect(),
            and_gates: self.gates.iter().map(|&(o, a, b)| AndGate { inputs: [l(a), l(b)], output: l(o) }).collect(),
            // a symbol for the first output if there is one (a symbol without target is not a legal file)
            symbols: if self.outputs.is_empty() { vec![] } else { vec![Symbol { target: SymbolTarget::Output(0), name: Cow::Borrowed("sym \u{e9}") }] },
            comment: Some("carried\nover".to_string()),
        }
    }
}

#[derive(Clone, Copy, Debug, PartialEq, Eq, PartialOrd, Ord)]
pub enum Problem {
    Cycle,
    Undefined,
}

/// Independent evaluator of the original graph: truth tables over the free variables.
struct Eval<'a> {
    g: &'a G,
    /// variable -> definition
    def: HashMap<usize, Def>,
    memo: HashMap<usize, Result<u64, BTreeSet<Problem>>>,
    visiting: BTreeSet<usize>,
    nfree: usize,
}

#[derive(Clone, Copy, Debug)]
enum Def {
    Const,
    Free(usize, usize),
    /// gate: (in0, in1, output parity)
    Gate(usize, usize, usize),
}

fn var_table(k: usize, nfree: usize) -> u64 {
    let mut t = 0u64;
    for a in 0..(1u64 << nfree) {
        if (a >> k) & 1 == 1 {
            t |= 1 << a;
        }
    }
    t
}

fn mask(nfree: usize) -> u64 {
    if nfree >= 6 {
        u64::MAX
    } else {
        (1u64 << (1u64 << nfree)) - 1
    }
}

impl<'a> Eval<'a> {
    /// Returns None if some variable is defined twice (the caller expects LitAlreadyDefined).
    fn new(g: &'a G) -> Option<Self> {
        let mut def: HashMap<usize, Def> = HashMap::new();
        def.insert(0, Def::Const);
        let mut k = 0;
        for &i in &g.inputs {
            if def.insert(i >> 1, Def::Free(k, i & 1)).is_some() {
                return None;
            }
            k += 1;
        }
        for &(s, _, _) in &g.latches {
            if def.insert(s >> 1, Def::Free(k, s & 1)).is_some() {
                return None;
            }
            k += 1;
        }
        for &(o, a, b) in &g.gates {
            if def.insert(o >> 1, Def::Gate(a, b, o & 1)).is_some() {
                return None;
            }
        }
        Some(Eval { g, def, memo: HashMap::new(), visiting: BTreeSet::new(), nfree: k })
    }

    /// Table of a variable (positive literal), or the set of problems in its cone.
    fn var(&mut self, v: usize) -> Result<u64, BTreeSet<Problem>> {
        if let Some(r) = self.memo.get(&v) {
            return r.clone();
        }
        if self.visiting.contains(&v) {
            return Err([Problem::Cycle].into_iter().collect());
        }
        let r = match self.def.get(&v).copied() {
            None => Err([Problem::Undefined].into_iter().collect()),
            Some(Def::Const) => Ok(0),
            // the free variable is the DEFINING literal: an odd defining literal makes the variable's
            // positive literal its negation
            Some(Def::Free(k, parity)) => Ok(if parity == 1 { !var_table(k, self.nfree) & mask(self.nfree) } else { var_table(k, self.nfree) }),
            Some(Def::Gate(a, b, parity)) => {
                self.visiting.insert(v);
                let ra = self.lit(a);
                let rb = self.lit(b);
                self.visiting.remove(&v);
                match (ra, rb) {
                    (Ok(x), Ok(y)) => {
                        let t = x & y;
                        Ok(if parity == 1 { !t & mask(self.nfree) } else { t })
                    }
                    (x, y) => {
                        let mut s = BTreeSet::new();
                        if let Err(e) = x {
                            s.extend(e);
                        }
                        if let Err(e) = y {
                            s.extend(e);
                        }
                        Err(s)
                    }
                }
            }
        };
        // results that hit a cycle through a node still being visited are not memoised for the
        // nodes on the cycle path other than as "problem" (sound: a problem stays a problem)
        if self.visiting.is_empty() || r.is_err() || true {
            self.memo.insert(v, r.clone());
        }
        r
    }

    fn lit(&mut self, code: usize) -> Result<u64, BTreeSet<Problem>> {
        let m = mask(self.nfree);
        self.var(code >> 1).map(|t| if code & 1 == 1 { !t & m } else { t })
    }
}

/// Evaluate the renumbered circuit (single pass; gates must be ordered). Returns tables per code>>1.
fn eval_ordered<L: LitName>(o: &OrderedAig<L>, nfree: usize) -> Result<Vec<u64>, String> {
    let m = mask(nfree);
    let mut t: Vec<u64> = vec![0];
    for k in 0..o.input_count + o.latches.len() {
        t.push(var_table(k, nfree));
    }
    for (k, g) in o.and_gates.iter().enumerate() {
        let code = 2 * (1 + o.input_count + o.latches.len() + k);
        let (a, b) = (g.inputs[0].code(), g.inputs[1].code());
        if a >= code || b >= code {
            return Err(format!("gate #{k} (code {code}) has an input ({a}, {b}) that is not numbered below it"));
        }
        if a < b {
            return Err(format!("gate #{k} (code {code}) has its smaller input first ({a}, {b})"));
        }
        let x = if a & 1 == 1 { !t[a >> 1] & m } else { t[a >> 1] };
        let y = if b & 1 == 1 { !t[b >> 1] & m } else { t[b >> 1] };
        t.push(x & y);
    }
    Ok(t)
}

fn table_of(t: &[u64], code: usize, nfree: usize) -> Option<u64> {
    t.get(code >> 1).map(|&x| if code & 1 == 1 { !x & mask(nfree) } else { x })
}

#[derive(Clone, Copy, Debug, PartialEq, Eq)]
pub struct Cfg {
    pub trim: bool,
    pub structural_hash: bool,
    pub const_fold: bool,
}

pub fn all_cfgs() -> Vec<Cfg> {
    let mut v = Vec::new();
    for trim in [false, true] {
        for structural_hash in [false, true] {
            for const_fold in [false, true] {
                v.push(Cfg { trim, structural_hash, const_fold });
            }
        }
    }
    v
}

fn err_kind<L>(e: &AigStructureError<L>) -> &'static str {
    match e {
        AigStructureError::LitAlreadyDefined { .. } => "already-defined",
        AigStructureError::LitNotDefined { .. } => "undefined",
        AigStructureError::FoundCycle { .. } => "cycle",
    }
}

/// Decide one (graph, configuration) case. Returns Some((kind, explanation)) on a violation.
pub fn judge<L: LitName>(g: &G, cfg: Cfg) -> (Option<(String, String)>, &'static str) {
    let aig: Aig<L> = g.to_aig();
    let rc = RenumberConfig::default().trim(cfg.trim).structural_hash(cfg.structural_hash).const_fold(cfg.const_fold);
    let res = catch(|| Renumber::renumber_aig(rc, &aig));
    let res = match res {
        Ok(r) => r,
        Err((m, l)) => return (Some(("panic".into(), format!("renumber_aig panicked: {m} @ {}", short_loc(&l)))), "panic"),
    };
    // ---- reference classification
    let ev = Eval::new(g);
    let mut ev = match ev {
        None => {
            return match res {
                Err(e) if err_kind(&e) == "already-defined" => (None, "dup:error"),
                Err(e) => (Some(("wrong-error".into(), format!("a literal is defined twice, but the error is {}", err_kind(&e)))), "dup:other-error"),
                Ok(_) => (Some(("double-definition-accepted".into(), "a literal is defined twice (input / latch / gate / constant collision) but renumbering returned a circuit".into())), "dup:ok"),
            };
        }
        Some(ev) => ev,
    };
    let nfree = ev.nfree;
    let roots = g.roots();
    let mut traversed: Vec<usize> = Vec::new();
    if !cfg.trim {
        traversed.extend(g.gates.iter().map(|x| x.0));
    }
    traversed.extend(&roots);
    let mut problems_t: BTreeSet<Problem> = BTreeSet::new();
    for &l in &traversed {
        if let Err(p) = ev.lit(l) {
            problems_t.extend(p);
        }
    }
    let mut problems_all: BTreeSet<Problem> = problems_t.clone();
    for &(o, _, _) in &g.gates {
        if let Err(p) = ev.lit(o) {
            problems_all.extend(p);
        }
    }
    let kind_ok = |k: &str, set: &BTreeSet<Problem>| (k == "cycle" && set.contains(&Problem::Cycle)) || (k == "undefined" && set.contains(&Problem::Undefined));
    match res {
        Err(e) => {
            let k = err_kind(&e);
            if !problems_t.is_empty() {
                // a node on a cycle may also reach an undefined literal and vice versa: any kind present in the traversed cones
                if kind_ok(k, &problems_t) {
                    (None, "ill-formed:error")
                } else {
                    (Some(("wrong-error".into(), format!("the traversed part has {problems_t:?} but the error is {k}"))), "ill-formed:wrong-error")
                }
            } else if cfg.trim && kind_ok(k, &problems_all) {
                (None, "ill-formed-outside-cone:error")
            } else {
                (Some(("spurious-error".into(), format!("well-formed graph (in the traversed part) rejected with {k}"))), "well-formed:error")
            }
        }
        Ok((o, ren)) => {
            if !problems_t.is_empty() {
                return (Some(("ill-formed-accepted".into(), format!("the traversed part has {problems_t:?} but renumbering returned a circuit"))), "ill-formed:ok");
            }
            // ---- the result must be a correct, binary-legal circuit
            let class = if problems_all.is_empty() { "well-formed:ok" } else { "ill-formed-outside-cone:ok" };
            if o.input_count != g.inputs.len() || o.latches.len() != g.latches.len() {
                return (Some(("shape".into(), format!("input/latch count changed: {} inputs, {} latches", o.input_count, o.latches.len()))), class);
            }
            if o.max_var_index != o.input_count + o.latches.len() + o.and_gates.len() {
                return (Some(("shape".into(), format!("max_var_index {} is not I+L+A = {}", o.max_var_index, o.input_count + o.latches.len() + o.and_gates.len()))), class);
            }
            let t = match eval_ordered(&o, nfree) {
                Ok(t) => t,
                Err(why) => return (Some(("order".into(), why)), class),
            };
            // roots compute the same functions
            let new_roots: Vec<usize> = {
                let mut r: Vec<usize> = o.latches.iter().map(|l| l.next_state.code()).collect();
                r.extend(o.outputs.iter().map(|l| l.code()));
                r.extend(o.bad_state_properties.iter().map(|l| l.code()));
                r.extend(o.invariant_constraints.iter().map(|l| l.code()));
                r.extend(o.fairness_constraints.iter().map(|l| l.code()));
                for j in &o.justice_properties {
                    r.extend(j.iter().map(|l| l.code()));
                }
                r
            };
            if new_roots.len() != roots.len() || o.justice_properties.iter().map(|j| j.len()).collect::<Vec<_>>() != g.justice.iter().map(|j| j.len()).collect::<Vec<_>>() {
                return (Some(("shape".into(), "the number of root literals changed".into())), class);
            }
            for (i, (&old, &new)) in roots.iter().zip(new_roots.iter()).enumerate() {
                let want = ev.lit(old).unwrap();
                match table_of(&t, new, nfree) {
                    Some(got) if got == want => {}
                    got => return (Some(("function".into(), format!("root #{i}: original literal {old} has truth table {want:#x}, renumbered literal {new} has {got:x?}"))), class),
                }
            }
            // latch resets, symbols, comment
            for (k, l) in o.latches.iter().enumerate() {
                if l.initialization != g.latches[k].2 {
                    return (Some(("carry".into(), format!("latch #{k} reset value changed"))), class);
                }
            }
            if o.symbols != aig.symbols || o.comment != aig.comment {
                return (Some(("carry".into(), "symbols or comment were not carried over".into())), class);
            }
            // literal map: every mapped original literal computes the same function, both polarities
            let map = ren.lit_map();
            let mut vars: Vec<usize> = vec![0];
            vars.extend(g.inputs.iter().map(|c| c >> 1));
            vars.extend(g.latches.iter().map(|c| c.0 >> 1));
            vars.extend(g.gates.iter().map(|c| c.0 >> 1));
            for v in vars {
                for pol in 0..2 {
                    let code = 2 * v + pol;
                    if let Some(m) = map.get(L::from_code(code)) {
                        match (ev.lit(code), table_of(&t, m.code(), nfree)) {
                            (Ok(want), Some(got)) if want == got => {}
                            (Err(_), _) => {} // ill-formed part outside the traversed cone
                            (want, got) => return (Some(("lit-map".into(), format!("lit_map sends original literal {code} to {}, tables {want:x?} vs {got:x?}", m.code()))), class),
                        }
                    } else if v == 0 || g.inputs.iter().any(|c| c >> 1 == v) || g.latches.iter().any(|c| c.0 >> 1 == v) || roots.iter().any(|r| r >> 1 == v) {
                        return (Some(("lit-map".into(), format!("lit_map has no entry for original literal {code} (constant / input / latch / root)"))), class);
                    }
                }
            }
            // binary-legal end to end: the binary writer accepts it and the binary parser reads it back
            let rt = catch(|| {
                let mut out = Vec::new();
                let w = DeferredWriter::from_write(&mut out);
                let mut bw = binary::Writer::<L>::new(w);
                bw.write_ordered_aig(&o);
                bw.writer.flush().unwrap();
                drop(bw);
                out
            });
            match rt {
                Err((m, l)) => return (Some(("binary-writer".into(), format!("binary::Writer rejected the renumbered circuit: {m} @ {}", short_loc(&l)))), class),
                Ok(bytes) => match crate::flat::parse_with::<L>(&bytes, true, &mc_core::generic::Spec::oneshot()) {
                    Ok(crate::flat::Parsed::Binary(back)) => {
                        if crate::flat::flat_of_ordered(&back) != crate::flat::flat_of_ordered(&o) {
                            return (Some(("binary-roundtrip".into(), "the renumbered circuit does not survive binary write + parse".into())), class);
                        }
                    }
                    Ok(_) => unreachable!(),
                    Err(end) => return (Some(("binary-roundtrip".into(), format!("binary::Parser rejected the written renumbered circuit: {}", end.short()))), class),
                },
            }
            (None, class)
        }
    }
}

// ------------------------------------------------------------------ enumeration

/// The same graph with some variables DEFINED through their odd literal: the defining literal of the
/// selected gates (bit k of `which` = k-th gate in list order) and, with `inputs_too`, of the inputs
/// is negated, and so is every reference to those variables - functions are unchanged.
fn flip_definitions(g: &G, which: u32, inputs_too: bool) -> G {
    let mut flipped: BTreeSet<usize> = BTreeSet::new();
    for (k, gate) in g.gates.iter().enumerate() {
        if which >> k & 1 == 1 {
            flipped.insert(gate.0 >> 1);
        }
    }
    if inputs_too {
        for &i in &g.inputs {
            flipped.insert(i >> 1);
        }
    }
    let f = |c: usize| if flipped.contains(&(c >> 1)) { c ^ 1 } else { c };
    G {
        max_var: g.max_var,
        inputs: g.inputs.iter().map(|&c| f(c)).collect(),
        latches: g.latches.iter().map(|&(s, n, i)| (s, f(n), i)).collect(),
        gates: g.gates.iter().map(|&(o, a, b)| (f(o), f(a), f(b))).collect(),
        outputs: g.outputs.iter().map(|&c| f(c)).collect(),
        bad: g.bad.iter().map(|&c| f(c)).collect(),
        constraints: g.constraints.iter().map(|&c| f(c)).collect(),
        fairness: g.fairness.iter().map(|&c| f(c)).collect(),
        justice: g.justice.iter().map(|j| j.iter().map(|&c| f(c)).collect()).collect(),
    }
}

/// Apply a variable renumbering (perm[v] = new variable index, v >= 1) to a graph.
fn renumber_vars(g: &G, perm: &dyn Fn(usize) -> usize) -> G {
    let f = |c: usize| if c < 2 { c } else { 2 * perm(c >> 1) + (c & 1) };
    let mut h = G {
        max_var: 0,
        inputs: g.inputs.iter().map(|&c| f(c)).collect(),
        latches: g.latches.iter().map(|&(s, n, i)| (f(s), f(n), i)).collect(),
        gates: g.gates.iter().map(|&(o, a, b)| (f(o), f(a), f(b))).collect(),
        outputs: g.outputs.iter().map(|&c| f(c)).collect(),
        bad: g.bad.iter().map(|&c| f(c)).collect(),
        constraints: g.constraints.iter().map(|&c| f(c)).collect(),
        fairness: g.fairness.iter().map(|&c| f(c)).collect(),
        justice: g.justice.iter().map(|j| j.iter().map(|&c| f(c)).collect()).collect(),
    };
    let mut m = 0;
    for c in h.inputs.iter().chain(h.latches.iter().map(|l| &l.0)).chain(h.gates.iter().map(|g| &g.0)) {
        m = m.max(c >> 1);
    }
    for c in h.roots().iter().chain(h.gates.iter().flat_map(|g| [&g.1, &g.2])) {
        m = m.max(c >> 1);
    }
    h.max_var = m;
    h
}

fn permutations(n: usize) -> Vec<Vec<usize>> {
    fn rec(cur: &mut Vec<usize>, used: &mut Vec<bool>, n: usize, out: &mut Vec<Vec<usize>>) {
        if cur.len() == n {
            out.push(cur.clone());
            return;
        }
        for i in 0..n {
            if !used[i] {
                used[i] = true;
                cur.push(i);
                rec(cur, used, n, out);
                cur.pop();
                used[i] = false;
            }
        }
    }
    let mut out = Vec::new();
    rec(&mut Vec::new(), &mut vec![false; n], n, &mut out);
    out
}

struct Scope {
    i: usize,
    l: usize,
    g: usize,
    /// quick 3-gate family: the first two gates range over leaf literals (constants, inputs,
    /// latches) only, the third over every literal; roots = both polarities of the third gate
    leaf: bool,
}

/// All literals of the scope: constants, both polarities of every variable, plus an undefined variable.
fn scope_literals(nvars: usize) -> Vec<usize> {
    let mut v = vec![0, 1];
    for x in 1..=nvars + 1 {
        v.push(2 * x);
        v.push(2 * x + 1);
    }
    v
}

fn check_graph<L: LitName>(g: &G, acc: &mut Report, tag: &str) {
    for cfg in all_cfgs() {
        acc.evaluations += 1;
        acc.transitions += 1;
        let (verdict, class) = judge::<L>(g, cfg);
        acc.outcome(format!("{class}"));
        acc.count(class, 1);
        if class.starts_with("well-formed:ok") && !g.gates.is_empty() {
            acc.nontrivial += 1;
        }
        if let Some((kind, why)) = verdict {
            let key = format!("renumber/{kind}");
            let size = (g.gates.len() * 100 + g.inputs.len() * 10 + g.latches.len() * 10 + g.roots().len()) as u64 * 16 + cfg.trim as u64 * 4 + cfg.structural_hash as u64 * 2 + cfg.const_fold as u64;
            acc.violation_with(&key, size, || (format!("{tag} <{}> {g:?} with {cfg:?}: {why}", L::NAME), replay_value::<L>(g, cfg)));
        }
    }
}

fn replay_value<L: LitName>(g: &G, cfg: Cfg) -> Value {
    json!({
        "property": "C12", "lit": L::NAME,
        "cfg": [cfg.trim, cfg.structural_hash, cfg.const_fold],
        "graph": {"max_var": g.max_var, "inputs": g.inputs, "latches": g.latches.iter().map(|l| json!([l.0, l.1, match l.2 { Some(false) => 0, Some(true) => 1, None => 2 }])).collect::<Vec<_>>(),
                  "gates": g.gates.iter().map(|x| json!([x.0, x.1, x.2])).collect::<Vec<_>>(), "outputs": g.outputs, "bad": g.bad, "constraints": g.constraints, "fairness": g.fairness, "justice": g.justice},
    })
}

fn graph_from_json(v: &Value) -> G {
    let us = |x: &Value| x.as_u64().unwrap() as usize;
    let list = |x: &Value| x.as_array().unwrap().iter().map(us).collect::<Vec<_>>();
    G {
        max_var: us(&v["max_var"]),
        inputs: list(&v["inputs"]),
        latches: v["latches"].as_array().unwrap().iter().map(|l| (us(&l[0]), us(&l[1]), match us(&l[2]) { 0 => Some(false), 1 => Some(true), _ => None })).collect(),
        gates: v["gates"].as_array().unwrap().iter().map(|l| (us(&l[0]), us(&l[1]), us(&l[2]))).collect(),
        outputs: list(&v["outputs"]),
        bad: list(&v["bad"]),
        constraints: list(&v["constraints"]),
        fairness: list(&v["fairness"]),
        justice: v["justice"].as_array().unwrap().iter().map(list).collect(),
    }
}

/// Number of gate input assignments of a scope.
fn scope_size(sc: &Scope) -> usize {
    let nl = scope_literals(sc.i + sc.l + sc.g).len();
    if sc.leaf {
        let leaves = 2 + 2 * (sc.i + sc.l);
        return (leaves * leaves).pow(2) * nl * nl;
    }
    (nl * nl).pow(sc.g as u32)
}

/// The 3-gate leaf family (see `Scope::leaf`).
fn check_leaf_assignment<L: LitName>(sc: &Scope, idx: usize, acc: &mut Report) {
    let nvars = sc.i + sc.l + 3;
    let lits = scope_literals(nvars);
    let nl = lits.len();
    let leaves: Vec<usize> = (0..2 + 2 * (sc.i + sc.l)).collect();
    let nleaf = leaves.len();
    let gv = |k: usize| 1 + sc.i + sc.l + k;
    let mut x = idx;
    let mut gates = Vec::new();
    for k in 0..2 {
        let p = x % (nleaf * nleaf);
        x /= nleaf * nleaf;
        gates.push((2 * gv(k), leaves[p / nleaf], leaves[p % nleaf]));
    }
    let p = x % (nl * nl);
    gates.push((2 * gv(2), lits[p / nl], lits[p % nl]));
    acc.states += 1;
    for pol in 0..2 {
        for reversed in [false, true] {
            let mut gs = gates.clone();
            if reversed {
                gs.reverse();
            }
            let top = 2 * gv(2) + pol;
            let g = G {
                max_var: nvars + 1,
                inputs: (1..=sc.i).map(|v| 2 * v).collect(),
                latches: (0..sc.l).map(|k| (2 * (1 + sc.i + k), top ^ 1, [None, Some(true)][k % 2])).collect(),
                gates: gs,
                outputs: vec![top],
                bad: vec![],
                constraints: vec![],
                fairness: vec![],
                justice: vec![],
            };
            check_graph::<L>(&g, acc, "leaf3");
        }
    }
}

/// Check one gate input assignment of a scope with every root, order, numbering and configuration.
fn check_assignment<L: LitName>(sc: &Scope, tier: Tier, idx: usize, acc: &mut Report) {
    let nvars = sc.i + sc.l + sc.g;
    let lits = scope_literals(nvars);
    let nl = lits.len();
    let per_gate = nl * nl;
    let gate_var = |k: usize| 1 + sc.i + sc.l + k;
    let perms = permutations(sc.g);
    let nv = nvars.max(1);
    let numberings: Vec<Box<dyn Fn(usize) -> usize>> = {
        let mut v: Vec<Box<dyn Fn(usize) -> usize>> = vec![Box::new(|x| x)];
        // reversal of the defined variables (the undefined one stays on top), with a gap
        v.push(Box::new(move |x| if x <= nv { 2 * (nv + 1 - x) } else { 2 * x + 1 }));
        if tier == Tier::Thorough || sc.g <= 1 {
            v.push(Box::new(move |x| if x <= nv { (x % nv) + 1 } else { x }));
            v.push(Box::new(move |x| 3 * x));
        }
        v
    };
    let full_perms: Vec<Vec<usize>> = if nvars <= 3 || (tier == Tier::Thorough && nvars <= 4 && sc.g <= 1) { permutations(nvars) } else { vec![] };
    // decode gate inputs
    let mut x = idx;
    let mut gates = Vec::new();
    for k in 0..sc.g {
        let p = x % per_gate;
        x /= per_gate;
        gates.push((2 * gate_var(k), lits[p / nl], lits[p % nl]));
    }
    let base = G { max_var: nvars + 1, inputs: (1..=sc.i).map(|v| 2 * v).collect(), latches: vec![], gates, outputs: vec![], bad: vec![], constraints: vec![], fairness: vec![], justice: vec![] };
    acc.states += 1;
    // roots: every literal r, (a) in the output list only, (b) in every list and as every latch's next state
    for (ri, &r) in lits.iter().enumerate() {
        for mode in 0..2 {
            if mode == 0 && sc.g > 2 {
                continue; // the richer mode (b) is used there; keeps the product in check
            }
            let mut g = base.clone();
            let other = lits[(ri + 3) % nl];
            g.latches = (0..sc.l).map(|k| (2 * (1 + sc.i + k), if mode == 1 { r } else { other }, [Some(false), Some(true), None][(ri + k) % 3])).collect();
            g.outputs = vec![r];
            if mode == 1 {
                g.bad = vec![r ^ 1];
                g.constraints = vec![r];
                g.fairness = vec![other, r];
                g.justice = vec![vec![r], vec![], vec![other, r ^ 1]];
            }
            // gate list orders x variable numberings
            for (pi, perm) in perms.iter().enumerate() {
                if sc.g > 2 && pi != 0 && pi != perms.len() - 1 {
                    continue;
                }
                let mut gp = g.clone();
                gp.gates = perm.iter().map(|&k| g.gates[k]).collect();
                for (ni, num) in numberings.iter().enumerate() {
                    if sc.g > 2 && ni != 1 {
                        continue;
                    }
                    let h = renumber_vars(&gp, num.as_ref());
                    if 2 * h.max_var + 1 > L::MAX_CODE {
                        continue;
                    }
                    check_graph::<L>(&h, acc, "scope");
                }
            }
            // (e) variables defined through their odd literal (gate outputs, and inputs): every
            // non-empty subset of the gates, with and without odd input literals
            if mode == 0 && sc.g >= 1 && sc.g <= 2 {
                let all = (1u32 << sc.g) - 1;
                let variants: Vec<(u32, bool)> = if tier == Tier::Thorough {
                    (1..=all).flat_map(|w| [(w, false), (w, true)]).collect()
                } else {
                    vec![(all, false), (1, false), (all, true)]
                };
                for (which, inputs_too) in variants {
                    if inputs_too && sc.i == 0 {
                        continue;
                    }
                    check_graph::<L>(&flip_definitions(&g, which, inputs_too), acc, "odd-definitions");
                }
            }
            // (c) every ordered pair of root literals (identity numbering and gate order): the
            // first root's cone is already transferred when the second one is visited
            if mode == 0 && sc.g >= 1 && sc.g <= 2 {
                for &r2 in lits.iter().filter(|&&c| (c >> 1) > sc.i + sc.l && (c >> 1) <= nvars) {
                    // second root: both polarities of every gate
                    let mut h = base.clone();
                    h.latches = (0..sc.l).map(|k| (2 * (1 + sc.i + k), r2, [Some(false), Some(true), None][(ri + k) % 3])).collect();
                    h.outputs = vec![r, r2];
                    h.max_var = nvars + 1;
                    check_graph::<L>(&h, acc, "pair");
                }
            }
            // (d) the root literal referenced from exactly ONE section (latch next-state, bad,
            // constraint, fairness, justice) and nothing else: with trim, the cone of every kind
            // of root must survive
            if mode == 0 && sc.g >= 1 && sc.g <= 2 && (r >> 1) > sc.i + sc.l {
                for sect in 0..5 {
                    if sect == 0 && sc.l == 0 {
                        continue;
                    }
                    let mut h = base.clone();
                    h.latches = (0..sc.l).map(|k| (2 * (1 + sc.i + k), if sect == 0 { r } else { 0 }, [Some(false), Some(true), None][(ri + k) % 3])).collect();
                    match sect {
                        1 => h.bad = vec![r],
                        2 => h.constraints = vec![r],
                        3 => h.fairness = vec![r],
                        4 => h.justice = vec![vec![r]],
                        _ => {}
                    }
                    check_graph::<L>(&h, acc, "single-section");
                }
            }
            // every permutation of the variable indices (small scopes)
            if mode == 1 && ri % 4 == 0 {
                for p in &full_perms {
                    let h = renumber_vars(&g, &|x| if x >= 1 && x <= nvars { p[x - 1] + 1 } else { x });
                    check_graph::<L>(&h, acc, "perm");
                }
            }
        }
    }
}


// ------------------------------------------------------------------ wide family (up to 6 free variables)

/// Fixed topologies over 3..6 free variables (node index < n: free variable, >= n: gate), checked
/// with EVERY polarity assignment of the gate inputs, gate list orders and two numberings. Brings
/// sharing, duplicate gates, constant cascades and five / six variable truth tables into scope.
/// (name, free variables, gates as (a, b); usize::MAX = constant false)
const C0: usize = usize::MAX;
const WIDE: &[(&str, usize, &[(usize, usize)])] = &[
    ("chain5", 5, &[(0, 1), (5, 2), (6, 3), (7, 4)]),
    ("tree6", 6, &[(0, 1), (2, 3), (4, 5), (6, 7), (9, 8)]),
    ("diamond", 3, &[(0, 1), (3, 2), (3, 2), (4, 5)]),
    ("xor-and", 3, &[(0, 1), (0, 1), (3, 4), (5, 2)]),
    ("duplicates", 4, &[(0, 1), (1, 0), (4, 2), (5, 2), (6, 7), (8, 3)]),
    ("mux", 3, &[(0, 1), (0, 2), (3, 4)]),
    ("constants", 4, &[(0, C0), (4, 1), (2, C0), (5, 6), (7, 3)]),
    ("same-variable", 2, &[(0, 0), (2, 0), (3, 1), (4, 2)]),
    ("fanout", 4, &[(0, 1), (4, 2), (4, 3), (5, 6), (7, 4)]),
];

fn wide_size(t: usize) -> usize {
    1usize << (2 * WIDE[t].2.len())
}

fn check_wide<L: LitName>(t: usize, pol: usize, tier: Tier, acc: &mut Report) {
    let (name, n, gates) = WIDE[t];
    let k = gates.len();
    let ni = (n + 1) / 2; // first half inputs, the rest latches
    let code_of = |node: usize, neg: usize| if node == C0 { neg } else { 2 * (node + 1) + neg };
    let gl: Vec<(usize, usize, usize)> = gates.iter().enumerate().map(|(j, &(a, b))| (2 * (n + j + 1), code_of(a, pol >> (2 * j) & 1), code_of(b, pol >> (2 * j + 1) & 1))).collect();
    let top = 2 * (n + k);
    let mid = 2 * (n + k / 2) + 1;
    acc.states += 1;
    for root_pol in 0..2usize {
        let base = G {
            max_var: n + k,
            inputs: (1..=ni).map(|v| 2 * v).collect(),
            latches: (ni..n).map(|v| (2 * (v + 1), if (v - ni) % 2 == 0 { top ^ root_pol } else { mid }, [None, Some(false), Some(true)][v % 3])).collect(),
            gates: gl.clone(),
            outputs: vec![top ^ root_pol],
            bad: vec![mid],
            constraints: vec![],
            fairness: vec![],
            justice: if root_pol == 1 { vec![vec![mid ^ 1, top]] } else { vec![] },
        };
        let orders: Vec<Vec<usize>> = {
            let id: Vec<usize> = (0..k).collect();
            let mut rev = id.clone();
            rev.reverse();
            let mut rot = id.clone();
            rot.rotate_left(k / 2);
            if tier == Tier::Thorough { vec![id, rev, rot] } else { vec![id, rev] }
        };
        for ord in &orders {
            let mut g = base.clone();
            g.gates = ord.iter().map(|&j| base.gates[j]).collect();
            check_graph::<L>(&g, acc, name);
            let nv = n + k;
            let h = renumber_vars(&g, &|x| if x <= nv { 2 * (nv + 1 - x) } else { 2 * x + 1 });
            if 2 * h.max_var + 1 <= L::MAX_CODE {
                check_graph::<L>(&h, acc, name);
            }
            if tier == Tier::Thorough {
                // every gate defined through its odd literal
                check_graph::<L>(&flip_definitions(&g, (1u32 << k) - 1, false), acc, name);
            }
        }
    }
}

/// Redefinition variants: some variable is defined twice (gate/gate, gate/input, gate/latch,
/// gate/constant, latch/input, latch/latch, latch/constant, input/input), either polarity.
fn redefinitions<L: LitName>(report: &mut Report) {
    let mut graphs: Vec<(String, G)> = Vec::new();
    let base = G { max_var: 6, inputs: vec![2, 4], latches: vec![(6, 10, None), (8, 3, Some(true))], gates: vec![(10, 2, 5), (12, 10, 7)], outputs: vec![12, 11], bad: vec![], constraints: vec![], fairness: vec![], justice: vec![vec![12]] };
    // every variant ADDS a colliding definition, so that the double definition is the only defect
    for pol in 0..2usize {
        for (what, target) in [("input", 2usize), ("second input", 4), ("latch", 6), ("second latch", 8), ("gate", 10), ("second gate", 12), ("constant", 0)] {
            for at in [0usize, 2] {
                let mut g = base.clone();
                g.gates.insert(at, (target | pol, 2, 4));
                graphs.push((format!("an extra gate (list position {at}) redefines {what} (polarity {pol})"), g));
            }
        }
        for (what, target) in [("input", 2usize), ("latch", 6), ("second latch", 8), ("gate", 10), ("constant", 0)] {
            for at in [0usize, 2] {
                let mut g = base.clone();
                g.latches.insert(at, (target | pol, 2, Some(false)));
                graphs.push((format!("an extra latch (position {at}) redefines {what} (polarity {pol})"), g));
            }
        }
        for (what, target) in [("input", 2usize), ("second input", 4), ("constant", 0), ("latch", 6), ("gate", 12)] {
            for at in [0usize, 2] {
                let mut g = base.clone();
                g.inputs.insert(at, target | pol);
                graphs.push((format!("an extra input (position {at}) redefines {what} (polarity {pol})"), g));
            }
        }
    }
    for (what, g) in &graphs {
        report.states += 1;
        check_graph::<L>(g, report, what);
    }
    report.count("redefinition_variants", graphs.len() as u64);
}

/// Deep shapes: recursion would overflow a small stack, the explicit stack must not; linear time.
fn deep_shapes(tier: Tier, report: &mut Report) {
    let depths: &[usize] = tier.pick(&[1_000, 100_000][..], &[1_000, 100_000, 1_000_000][..]);
    for &d in depths {
        for shape in ["left-chain", "right-chain", "xx-chain", "cycle", "undefined-end"] {
            let handle = std::thread::Builder::new().stack_size(256 << 10).spawn(move || {
                let cpu0 = mc_core::cputime::thread_cpu_secs();
                // variables: inputs 1,2; gates 3..3+d
                let mut gates: Vec<(usize, usize, usize)> = Vec::with_capacity(d);
                for k in 0..d {
                    let out = 2 * (3 + k);
                    let prev = if k == 0 { 2 } else { 2 * (2 + k) };
                    gates.push(match shape {
                        "left-chain" => (out, prev, 4),
                        "right-chain" => (out, 4, prev),
                        "xx-chain" => (out, prev, prev),
                        "cycle" => (out, if k == 0 { 2 * (2 + d) } else { prev }, 4),
                        _ => (out, if k == 0 { 2 * (10 + d) } else { prev }, 4),
                    });
                }
                // list the gates top-down so that the first transfer has to descend the whole chain
                gates.reverse();
                let top = 2 * (2 + d);
                let g = G { max_var: 12 + d, inputs: vec![2, 4], latches: vec![], gates, outputs: vec![top], bad: vec![], constraints: vec![], fairness: vec![], justice: vec![] };
                let aig: Aig<usize> = g.to_aig();
                let mut results = Vec::new();
                for cfg in all_cfgs() {
                    let rc = RenumberConfig::default().trim(cfg.trim).structural_hash(cfg.structural_hash).const_fold(cfg.const_fold);
                    let r = catch(|| Renumber::renumber_aig(rc, &aig));
                    let verdict: Result<(), String> = match r {
                        Err((m, l)) => Err(format!("panicked: {m} @ {l}")),
                        Ok(Err(e)) => match (shape, err_kind(&e)) {
                            ("cycle", "cycle") | ("undefined-end", "undefined") => Ok(()),
                            (_, k) => Err(format!("unexpected error {k}")),
                        },
                        Ok(Ok((o, _))) => {
                            if shape == "cycle" || shape == "undefined-end" {
                                Err("ill-formed deep graph accepted".into())
                            } else {
                                // iterative check: order legality + output function
                                match eval_ordered(&o, 2) {
                                    Err(e) => Err(e),
                                    Ok(t) => {
                                        let want = match shape {
                                            "xx-chain" => var_table(0, 2),
                                            _ => var_table(0, 2) & var_table(1, 2),
                                        };
                                        let got = table_of(&t, flussab_aiger::Lit::code(o.outputs[0]), 2);
                                        if got == Some(want) {
                                            Ok(())
                                        } else {
                                            Err(format!("output function {got:x?}, expected {want:#x}"))
                                        }
                                    }
                                }
                            }
                        }
                    };
                    results.push((cfg, verdict));
                }
                (results, mc_core::cputime::thread_cpu_secs() - cpu0)
            });
            let (results, secs) = match handle.map(|h| h.join()) {
                Ok(Ok(r)) => r,
                _ => {
                    report.violation("renumber/deep/stack-overflow-or-crash", format!("{shape} of depth {d}: the worker thread died (stack overflow?)"), json!({"property": "C12", "deep": shape, "depth": d}), d as u64);
                    continue;
                }
            };
            report.max("deep_shape_max_cpu_seconds_x1000", (secs * 1000.0) as u64);
            for (cfg, v) in results {
                report.evaluations += 1;
                report.transitions += 1;
                report.nontrivial += 1;
                report.outcome(format!("deep:{shape}:{}", v.is_ok()));
                if let Err(why) = v {
                    report.violation(format!("renumber/deep/{shape}"), format!("{shape} of depth {d} with {cfg:?}: {why}"), json!({"property": "C12", "deep": shape, "depth": d}), d as u64);
                }
            }
            // linear time: 8 configurations on depth d within a generous budget
            if secs > 10.0 + d as f64 * 1e-5 * 8.0 {
                report.violation(format!("renumber/deep/{shape}/time"), format!("{shape} of depth {d}: {secs:.1}s of CPU time for 8 configurations (not linear?)"), json!({"property": "C12", "deep": shape, "depth": d}), d as u64);
            }
        }
    }
    report.count("deep_shape_runs", (depths.len() * 5) as u64);
}

#[derive(Clone, Debug)]
enum Unit {
    Deep,
    Redef(&'static str),
    /// (literal type, inputs, latches, gates, first assignment index, number of assignments)
    Block(&'static str, usize, usize, usize, usize, usize),
    /// (literal type, topology, first polarity assignment, number of assignments)
    Wide(&'static str, usize, usize, usize),
}

fn scopes(max_gates: usize) -> Vec<Scope> {
    let mut v = Vec::new();
    for g in 0..=max_gates {
        for i in 0..=2usize {
            for l in 0..=(2 - i) {
                if g == 3 && i + l > 1 {
                    continue;
                }
                v.push(Scope { i, l, g, leaf: false });
            }
        }
    }
    v
}

fn units(tier: Tier) -> Vec<Unit> {
    let mut u = vec![Unit::Deep];
    // the wide family first: it is small and must not fall behind a time cap
    for lit in tier.pick(vec!["u32"], vec!["u32", "u8", "usize"]) {
        for t in 0..WIDE.len() {
            let n = wide_size(t);
            let block = 64;
            let mut s = 0;
            while s < n {
                u.push(Unit::Wide(lit, t, s, block.min(n - s)));
                s += block;
            }
        }
    }
    let plan: Vec<(&'static str, usize)> = tier.pick(vec![("u32", 2), ("u8", 1)], vec![("u32", 3), ("u8", 2), ("usize", 2)]);
    for (lit, max_gates) in plan {
        u.push(Unit::Redef(lit));
        let mut scs = scopes(max_gates);
        if max_gates == 2 && lit == "u32" {
            // quick tier: the 3-gate leaf family (two leaf gates that may coincide + one parent)
            for (i, l) in [(2usize, 0usize), (1, 1)] {
                scs.push(Scope { i, l, g: 3, leaf: true });
            }
        }
        for sc in scs {
            let n = scope_size(&sc);
            let block = 16;
            let mut s = 0;
            while s < n {
                u.push(Unit::Block(lit, sc.i, sc.l, if sc.leaf { 30 } else { sc.g }, s, block.min(n - s)));
                s += block;
            }
        }
    }
    u
}

fn run_unit(u: &Unit, tier: Tier, rep: &mut Report) {
    match u {
        Unit::Deep => deep_shapes(tier, rep),
        Unit::Redef(lit) => match *lit {
            "u8" => redefinitions::<u8>(rep),
            "usize" => redefinitions::<usize>(rep),
            _ => redefinitions::<u32>(rep),
        },
        Unit::Wide(lit, t, s, n) => {
            for pol in *s..*s + *n {
                match *lit {
                    "u8" => check_wide::<u8>(*t, pol, tier, rep),
                    "usize" => check_wide::<usize>(*t, pol, tier, rep),
                    _ => check_wide::<u32>(*t, pol, tier, rep),
                }
            }
        }
        Unit::Block(lit, i, l, g, s, n) => {
            let leaf = *g == 30;
            let sc = Scope { i: *i, l: *l, g: if leaf { 3 } else { *g }, leaf };
            for idx in *s..*s + *n {
                if leaf {
                    match *lit {
                        "u8" => check_leaf_assignment::<u8>(&sc, idx, rep),
                        "usize" => check_leaf_assignment::<usize>(&sc, idx, rep),
                        _ => check_leaf_assignment::<u32>(&sc, idx, rep),
                    }
                    continue;
                }
                match *lit {
                    "u8" => check_assignment::<u8>(&sc, tier, idx, rep),
                    "usize" => check_assignment::<usize>(&sc, tier, idx, rep),
                    _ => check_assignment::<u32>(&sc, tier, idx, rep),
                }
            }
        }
    }
}

pub fn run(tier: Tier, report: &mut Report) {
    let us = units(tier);
    let secs = tier.pick(75.0, 1800.0);
    let _ = Budget::new(secs);
    if let Some(w) = mc_core::isolate::worker_spec() {
        let deadline = std::time::Instant::now() + std::time::Duration::from_secs_f64(secs);
        mc_core::isolate::run_worker(&w, us.len(), |i, rep| run_unit(&us[i], tier, rep), Some(deadline));
    }
    // renumbering a small graph takes microseconds: a worker whose unit does not finish within the
    // stall limit, or that exhausts its address space, has hit non-termination / unbounded growth
    let crashes = mc_core::isolate::run_parent(us.len(), mc_core::threads(), 1 << 20, tier.pick(20.0, 60.0), report);
    for c in crashes {
        report.violation("renumber/crash-or-hang", format!("unit {:?}: {} (renumbering did not terminate, exhausted memory or crashed)", us[c.unit], c.how), json!({"property": "C12", "unit": format!("{:?}", us[c.unit]), "note": "re-run ./check C12"}), c.unit as u64);
    }
    if report.caps.is_empty() {
        report.completed.push(format!("{} units: deep shapes; per literal type the redefinition variants and every gate input assignment of every scope (inputs + latches <= 2, gates <= {}) x every root literal x root modes x gate orders x numberings x 8 option combinations; each unit in an isolated worker process", us.len(), tier.pick(2, 3)));
    }
    report.traces = report.evaluations;
    let g = G { max_var: 5, inputs: vec![2], latches: vec![(4, 9, None)], gates: vec![(6, 2, 5), (8, 6, 7)], outputs: vec![8], bad: vec![], constraints: vec![], fairness: vec![], justice: vec![] };
    report.sample(replay_value::<u32>(&g, Cfg { trim: true, structural_hash: true, const_fold: false }));
}

pub fn replay(v: &Value) -> (bool, String) {
    if !v["deep"].is_null() {
        return (true, format!("deep shape {} at depth {}: re-run ./check C12", v["deep"], v["depth"]));
    }
    let g = graph_from_json(&v["graph"]);
    let cfg = Cfg { trim: v["cfg"][0].as_bool().unwrap(), structural_hash: v["cfg"][1].as_bool().unwrap(), const_fold: v["cfg"][2].as_bool().unwrap() };
    let (verdict, class) = match v["lit"].as_str().unwrap() {
        "u8" => judge::<u8>(&g, cfg),
        "usize" => judge::<usize>(&g, cfg),
        _ => judge::<u32>(&g, cfg),
    };
    let text = format!("{g:?}\n  {cfg:?}\n  reference class: {class}\n  {}\n", verdict.as_ref().map_or("ok".to_string(), |(k, w)| format!("{k}: {w}")));
    (verdict.is_some(), text)
}

pub const RULE: &str = "every and-inverter graph of the scope (inputs + latches <= 2, gates <= 2 quick / 3 thorough; each gate input over every literal: constants, both polarities of every input, latch and gate incl. itself and later gates, and an undefined variable; variables also defined through their odd literal (every subset of the gates, optionally the inputs); roots: every literal as output alone, as the only entry of exactly one of latch next-state / bad / constraint / fairness / justice, and in all of them at once; gate list orders; variable numberings incl. reversal with gaps and all permutations for small scopes; redefinition variants; deep chains; the WIDE family: nine fixed topologies over 2..6 free variables and 3..6 gates (chain, tree, diamond, xor, duplicate gates, mux, constant cascade, same-variable gates, fan-out) with EVERY polarity assignment of the gate inputs, both root polarities, gate list orders and a reversed numbering with gaps) x all 8 (trim, structural_hash, const_fold) combinations; truth tables over all assignments of the free variables (<= 2 in the scopes, up to 6 in the wide family); non-trivial = well-formed graphs with at least one gate that were renumbered successfully";

//! C08, LineReader half — locations computed from the mark survive refills and realigns.
//!
//! The parsers of the workspace never refill between marking a token and reporting on it, so the
//! mark's journey through `request_more` (rebase on realign) is only visible through the public
//! `LineReader` / `DeferredReader` API. E-enum, complete for small texts: every text of length <= 7
//! over {a, LF}, every chunk size in {1, 2, 3}, read grains {1, chunk}; a tokenizer-style driver
//! consumes i bytes (recording line starts), sets the mark, consumes j more bytes of the same line,
//! performs k refills / a look-ahead request, then asks for `give_up_at(mark)` and `give_up()`.

use flussab::text::{LineReader, SyntaxError};
use flussab::DeferredReader;
use mc_core::report::Report;
use mc_core::source::{Grain, ScriptedSource, SourceCfg};
use mc_core::subject::{catch, short_loc};
use mc_core::{hex, json, show, unhex, Tier, Value};

enum E {
    Io(String),
    Syntax(SyntaxError),
}
impl From<std::io::Error> for E {
    fn from(e: std::io::Error) -> Self {
        E::Io(e.to_string())
    }
}
impl From<SyntaxError> for E {
    fn from(e: SyntaxError) -> Self {
        E::Syntax(e)
    }
}

#[derive(Clone, Debug)]
struct Case {
    text: Vec<u8>,
    chunk: usize,
    grain: usize,
    i: usize,
    j: usize,
    refills: usize,
    lookahead: usize,
}

fn run_case(c: &Case) -> Vec<(String, String)> {
    let mut problems = Vec::new();
    let (src, _st) = ScriptedSource::new(SourceCfg::new(&c.text, Grain::Uniform(c.grain)), vec![]);
    let res = catch(|| {
        let mut r = DeferredReader::from_read(src);
        r.set_chunk_size(c.chunk);
        let mut lr = LineReader::new(r);
        let mut step = |lr: &mut LineReader, n: usize, stop_at_newline: bool| -> usize {
            let mut done = 0;
            for _ in 0..n {
                match lr.reader.request_byte() {
                    Some(b'\n') if stop_at_newline => break,
                    Some(b) => {
                        lr.reader.advance(1);
                        if b == b'\n' {
                            lr.line_at_offset(0);
                        }
                        done += 1;
                    }
                    None => break,
                }
            }
            done
        };
        let i = step(&mut lr, c.i, false);
        lr.reader.set_mark();
        let j = step(&mut lr, c.j, true);
        for _ in 0..c.refills {
            lr.reader.request_more();
        }
        if c.lookahead > 0 {
            lr.reader.request(c.lookahead);
        }
        let mark = lr.reader.mark();
        let at_mark: E = lr.give_up_at(mark, "m");
        let at_cursor: E = lr.give_up("c");
        (i, j, mark, at_mark, at_cursor)
    });
    match res {
        Err((m, l)) => problems.push(("panic".into(), format!("panicked: {m} @ {}", short_loc(&l)))),
        Ok((i, j, mark, at_mark, at_cursor)) => {
            let line = 1 + c.text[..i].iter().filter(|&&b| b == b'\n').count();
            let line_start = c.text[..i].iter().rposition(|&b| b == b'\n').map_or(0, |p| p + 1);
            if mark != i {
                problems.push(("mark".into(), format!("mark() = {mark}, the mark was set at offset {i}")));
            }
            for (what, e, pos) in [("give_up_at(mark)", at_mark, i), ("give_up()", at_cursor, i + j)] {
                match e {
                    E::Io(m) => problems.push(("io".into(), format!("{what} returned an I/O error ({m}) although the source never failed"))),
                    E::Syntax(s) => {
                        let want = (line, pos - line_start + 1);
                        if (s.location.line, s.location.column) != want {
                            problems.push(("location".into(), format!("{what} reports {}:{}, the position is {}:{}", s.location.line, s.location.column, want.0, want.1)));
                        }
                    }
                }
            }
        }
    }
    problems
}

fn replay_value(c: &Case) -> Value {
    json!({"property": "C08", "subject": "LineReader", "input_hex": hex(&c.text), "input": show(&c.text), "chunk": c.chunk, "grain": c.grain, "i": c.i, "j": c.j, "refills": c.refills, "lookahead": c.lookahead})
}

pub fn run(tier: Tier, report: &mut Report) {
    let max_len = tier.pick(7, 9);
    let mut texts: Vec<Vec<u8>> = Vec::new();
    for n in 0..=max_len {
        for bits in 0..(1u32 << n) {
            texts.push((0..n).map(|k| if bits >> k & 1 == 1 { b'\n' } else { b'a' }).collect());
        }
    }
    let total = mc_core::par::par_fold(
        texts.len(),
        mc_core::threads(),
        Report::new,
        |acc, t| {
            let text = &texts[t];
            acc.states += 1;
            for chunk in [1usize, 2, 3] {
                for grain in [1usize, chunk] {
                    for i in 0..=text.len() {
                        for j in 0..=(text.len() - i).min(4) {
                            for refills in 0..=3usize {
                                for lookahead in [0usize, 2, 9] {
                                    let c = Case { text: text.clone(), chunk, grain, i, j, refills, lookahead };
                                    acc.evaluations += 1;
                                    acc.transitions += 1;
                                    if refills + lookahead > 0 && i + j > 2 * chunk {
                                        acc.nontrivial += 1;
                                    }
                                    let problems = run_case(&c);
                                    acc.outcome(format!("linereader:{}", problems.len()));
                                    for (kind, what) in problems {
                                        acc.violation_with(&format!("linereader/location/{kind}"), (text.len() * 100 + i + j) as u64, || {
                                            (format!("text {:?}, chunk {chunk}, {grain} byte(s) per read: consume {i}, set_mark, consume {j}, {refills} refill(s), request({lookahead}): {what}", show(text)), replay_value(&c))
                                        });
                                    }
                                }
                            }
                        }
                    }
                }
            }
        },
        |a, b| a.merge(b),
    );
    report.merge(total);
    report.traces = report.evaluations;
    report.completed.push(format!("LineReader: all {} texts of length <= {max_len} over {{a, LF}} x chunk {{1,2,3}} x grain {{1, chunk}} x consume i / set_mark / consume j <= 4 on the line / 0..=3 refills / request(0,2,9) x give_up_at(mark), give_up()", texts.len()));
}

pub fn replay(v: &Value) -> (bool, String) {
    let u = |k: &str| v[k].as_u64().unwrap_or(0) as usize;
    let c = Case { text: unhex(v["input_hex"].as_str().unwrap()), chunk: u("chunk"), grain: u("grain"), i: u("i"), j: u("j"), refills: u("refills"), lookahead: u("lookahead") };
    let p = run_case(&c);
    let text: String = p.iter().map(|(k, w)| format!("  {k}: {w}\n")).collect();
    (!p.is_empty(), format!("{c:?}\n{text}"))
}

pub const RULE: &str = "LINEREADER: every text of length <= 7 (quick) / 9 (thorough) over {a, LF} x chunk size {1,2,3} x read grain {1, chunk} x (consume i bytes recording line starts, set_mark, consume j <= 4 further bytes of that line, 0..=3 refills, request(0|2|9)): mark() is the marked offset and give_up_at(mark) / give_up() report the line and column of the marked / current position; non-trivial = the cursor is more than two chunks into the buffer when a refill happens (realign)";

//! Scripted `Read` implementation: every answer of the environment is owned by the harness.
//!
//! A `read(buf)` call is answered from the byte string `data` according to a [`Grain`]:
//! one-shot (as much as fits), uniform grain, an explicit script, or a *choice point* whose menu is
//! `[as much as fits (default), 1, 2, .., fit-1 bytes, Interrupted (while budget remains)]`.
//! Optional `fault_at`: the stream ends in a permanent non-`Interrupted` error at that offset instead
//! of `Ok(0)`. Optional `boundaries`: a read never crosses the next boundary (line gated source).
//! The shared [`SrcState`] records what the subject asked for and what it was told.

use crate::choice::Chooser;
use std::cell::RefCell;
use std::io::{self, Read};
use std::rc::Rc;

/// Every stable non-`Interrupted` error kind a source may fail with (index 0 is the default).
pub const FAULT_KINDS: [io::ErrorKind; 20] = [
    io::ErrorKind::Other,
    io::ErrorKind::UnexpectedEof,
    io::ErrorKind::WouldBlock,
    io::ErrorKind::TimedOut,
    io::ErrorKind::BrokenPipe,
    io::ErrorKind::ConnectionReset,
    io::ErrorKind::ConnectionAborted,
    io::ErrorKind::ConnectionRefused,
    io::ErrorKind::NotConnected,
    io::ErrorKind::InvalidData,
    io::ErrorKind::InvalidInput,
    io::ErrorKind::NotFound,
    io::ErrorKind::PermissionDenied,
    io::ErrorKind::WriteZero,
    io::ErrorKind::OutOfMemory,
    io::ErrorKind::Unsupported,
    io::ErrorKind::AlreadyExists,
    io::ErrorKind::AddrInUse,
    io::ErrorKind::AddrNotAvailable,
    io::ErrorKind::InvalidFilename,
];

/// Payload of the scripted permanent error: lets a check verify that the error a parser ends with IS
/// the source's error (same object: kind, message and payload), not a re-creation of it.
#[derive(Debug)]
pub struct FaultPayload;

impl std::fmt::Display for FaultPayload {
    fn fmt(&self, f: &mut std::fmt::Formatter<'_>) -> std::fmt::Result {
        write!(f, "scripted source failure")
    }
}

impl std::error::Error for FaultPayload {}

/// Rendering of an I/O error a subject ended with: kind / payload marker / message.
pub fn render_io_error(e: &io::Error) -> String {
    let payload = match e.get_ref() {
        None => "no-payload",
        Some(p) if p.is::<FaultPayload>() => "scripted-payload",
        Some(_) => "other-payload",
    };
    format!("{:?}/{payload}/{e}", e.kind())
}

#[derive(Clone, Debug, PartialEq, Eq)]
pub enum Ans {
    Deliver(usize),
    Interrupt,
}

#[derive(Clone, Debug, PartialEq, Eq)]
pub enum Menu {
    /// every positive size that fits
    AllSizes,
    /// as much as fits, 1, 2
    Small,
}

#[derive(Clone, Debug, PartialEq, Eq)]
pub enum Grain {
    OneShot,
    Uniform(usize),
    Script(Vec<Ans>),
    Choose(Menu),
    /// before EVERY successful read, this many `Interrupted` answers in a row; then as much as fits
    /// up to the given size
    InterruptedBursts(u32, usize),
}

#[derive(Clone, Debug)]
pub struct SourceCfg<'d> {
    pub data: &'d [u8],
    pub grain: Grain,
    pub fault_at: Option<usize>,
    /// kind of the permanent error (index into `FAULT_KINDS`; 0 = Other)
    pub fault_kind: usize,
    /// budget of `Interrupted` answers offered as a choice in `Grain::Choose` mode
    pub interrupts: u32,
    /// sorted stream offsets; a read starting before a boundary never delivers bytes at or after it
    pub boundaries: Option<&'d [usize]>,
    /// record every answer in `SrcState::log`
    pub record: bool,
    /// A source may use the slice it is handed as scratch space: with `Some(b)` every byte of the
    /// slice behind the reported length (the whole slice for Interrupted / end / error answers) is
    /// overwritten with `b`. Nothing a correct caller can observe - the bytes were never reported as
    /// read - but whoever looks beyond the valid window finds `b` there instead of zeros.
    pub scribble: Option<u8>,
}

impl<'d> SourceCfg<'d> {
    pub fn new(data: &'d [u8], grain: Grain) -> Self {
        SourceCfg { data, grain, fault_at: None, fault_kind: 0, interrupts: 0, boundaries: None, record: false, scribble: None }
    }
    pub fn fault_at(mut self, k: Option<usize>) -> Self {
        self.fault_at = k;
        self
    }
    pub fn fault_kind(mut self, k: usize) -> Self {
        self.fault_kind = k;
        self
    }
    pub fn interrupts(mut self, n: u32) -> Self {
        self.interrupts = n;
        self
    }
    pub fn boundaries(mut self, b: Option<&'d [usize]>) -> Self {
        self.boundaries = b;
        self
    }
    pub fn record(mut self, r: bool) -> Self {
        self.record = r;
        self
    }
    pub fn scribble(mut self, b: Option<u8>) -> Self {
        self.scribble = b;
        self
    }
}

#[derive(Default, Debug)]
pub struct SrcState {
    /// bytes handed out so far
    pub pos: usize,
    pub read_calls: u32,
    pub ok_reads: u32,
    pub interrupted: u32,
    pub eof_returned: u32,
    pub err_returned: u32,
    /// calls made after the first `Ok(0)` at the end / terminal error (forbidden by C09)
    pub calls_after_terminal: u32,
    pub zero_len_requests: u32,
    /// largest stream position at which a (non-empty) read call was issued so far: the subject had
    /// received that many bytes and asked for more
    pub max_pos_at_call: usize,
    pub max_request: usize,
    pub script_pos: usize,
    pub interrupts_left: u32,
    pub log: Vec<Ans>,
    pub chooser: Chooser,
}

impl SrcState {
    pub fn terminal(&self) -> bool {
        self.eof_returned > 0 || self.err_returned > 0
    }
}

pub type SharedSrc = Rc<RefCell<SrcState>>;

pub struct ScriptedSource<'d> {
    pub cfg: SourceCfg<'d>,
    pub st: SharedSrc,
}

impl<'d> ScriptedSource<'d> {
    pub fn new(cfg: SourceCfg<'d>, forced: Vec<(u32, u32)>) -> (Self, SharedSrc) {
        let st = Rc::new(RefCell::new(SrcState {
            interrupts_left: cfg.interrupts,
            chooser: Chooser::new(forced),
            ..Default::default()
        }));
        (ScriptedSource { cfg, st: st.clone() }, st)
    }
}

impl Read for ScriptedSource<'_> {
    fn read(&mut self, buf: &mut [u8]) -> io::Result<usize> {
        let r = self.read_inner(buf);
        if let Some(b) = self.cfg.scribble {
            let n = match &r {
                Ok(n) => (*n).min(buf.len()),
                Err(_) => 0,
            };
            for x in &mut buf[n..] {
                *x = b;
            }
        }
        r
    }
}

impl ScriptedSource<'_> {
    fn read_inner(&mut self, buf: &mut [u8]) -> io::Result<usize> {
        let mut st = self.st.borrow_mut();
        st.read_calls += 1;
        st.max_request = st.max_request.max(buf.len());
        if st.terminal() {
            st.calls_after_terminal += 1;
        }
        if buf.is_empty() {
            st.zero_len_requests += 1;
            return Ok(0);
        }
        st.max_pos_at_call = st.max_pos_at_call.max(st.pos);
        // The failure at `fault_at` is reported ONCE. A correct reader never calls again after it (the
        // C09 oracle counts such calls); a reader that does - e.g. one that takes the error for a
        // transient condition and retries - finds that the data goes on behind the failure, so that
        // what it does with it is observable (instead of the exploration hanging in a retry loop).
        let failed_once = st.err_returned > 0;
        let end = if failed_once { self.cfg.data.len() } else { self.cfg.fault_at.map_or(self.cfg.data.len(), |k| k.min(self.cfg.data.len())) };
        let mut fit = buf.len().min(end.saturating_sub(st.pos));
        if let Some(bs) = self.cfg.boundaries {
            // next boundary strictly after pos
            let i = bs.partition_point(|&b| b <= st.pos);
            if i < bs.len() {
                fit = fit.min(bs[i] - st.pos);
            }
        }
        if fit == 0 {
            if st.eof_returned > 100_000 {
                // loop breaker: a caller that polls a finished source forever becomes a panic outcome
                panic!("scripted source: polled 100000 times after it reported the end of the input");
            }
            if !failed_once && self.cfg.fault_at.map_or(false, |k| k <= self.cfg.data.len()) {
                st.err_returned += 1;
                return Err(io::Error::new(FAULT_KINDS[self.cfg.fault_kind % FAULT_KINDS.len()], FaultPayload));
            }
            st.eof_returned += 1;
            return Ok(0);
        }
        let ans = match &self.cfg.grain {
            Grain::OneShot => Ans::Deliver(fit),
            Grain::Uniform(s) => Ans::Deliver(fit.min((*s).max(1))),
            Grain::Script(script) => {
                let i = st.script_pos;
                st.script_pos += 1;
                match script.get(i) {
                    Some(Ans::Deliver(k)) => Ans::Deliver(fit.min((*k).max(1))),
                    Some(Ans::Interrupt) => Ans::Interrupt,
                    None => Ans::Deliver(fit),
                }
            }
            Grain::InterruptedBursts(k, size) => {
                if st.script_pos < *k as usize {
                    st.script_pos += 1;
                    Ans::Interrupt
                } else {
                    st.script_pos = 0;
                    Ans::Deliver(fit.min((*size).max(1)))
                }
            }
            Grain::Choose(menu) => {
                let sizes: u32 = match menu {
                    Menu::AllSizes => fit as u32,
                    Menu::Small => (fit as u32).min(3),
                };
                let n = sizes + (st.interrupts_left > 0) as u32;
                let c = st.chooser.choose(n);
                if c == 0 {
                    Ans::Deliver(fit)
                } else if c < sizes {
                    Ans::Deliver(c as usize)
                } else {
                    Ans::Interrupt
                }
            }
        };
        if self.cfg.record {
            st.log.push(ans.clone());
        }
        match ans {
            Ans::Interrupt => {
                st.interrupted += 1;
                st.interrupts_left = st.interrupts_left.saturating_sub(1);
                Err(io::Error::new(io::ErrorKind::Interrupted, "scripted interrupt"))
            }
            Ans::Deliver(k) => {
                let pos = st.pos;
                buf[..k].copy_from_slice(&self.cfg.data[pos..pos + k]);
                st.pos += k;
                st.ok_reads += 1;
                Ok(k)
            }
        }
    }
}

/// Position stamped stream content used for data independent subjects: byte i is (i mod 251) + 1,
/// never zero (the reader zero-fills fresh buffer space, so an invented byte shows up as 0 or as a
/// wrong stamp).
pub fn stamp(i: usize) -> u8 {
    (i % 251) as u8 + 1
}

pub fn stamped(n: usize) -> Vec<u8> {
    (0..n).map(stamp).collect()
}

//! Violations, evidence counters and JSON output.

use serde_json::{json, Map, Value};
use std::collections::{BTreeMap, BTreeSet};

#[derive(Clone, Debug)]
pub struct Violation {
    /// finding key: identifies the failing call site / input class, not just the property
    pub key: String,
    /// human readable: what was expected, what was observed
    pub what: String,
    /// everything needed to re-execute exactly this case without any explorer
    pub replay: Value,
    /// size measure used to keep the smallest example per key
    pub size: u64,
    pub count: u64,
}

#[derive(Clone, Debug, Default)]
pub struct Report {
    pub evaluations: u64,
    pub states: u64,
    pub transitions: u64,
    pub traces: u64,
    pub nontrivial: u64,
    pub counters: BTreeMap<String, u64>,
    pub maxima: BTreeMap<String, u64>,
    pub outcomes: BTreeSet<String>,
    pub samples: Vec<Value>,
    pub violations: BTreeMap<String, Violation>,
    pub violation_count: u64,
    pub caps: Vec<String>,
    pub notes: Vec<String>,
    pub completed: Vec<String>,
    pub not_exhaustive: bool,
    pub machinery_errors: Vec<String>,
}

pub const MAX_SAMPLES: usize = 12;
pub const MAX_OUTCOMES: usize = 4000;

impl Report {
    pub fn new() -> Self {
        Self::default()
    }

    pub fn count(&mut self, name: &str, n: u64) {
        if n == 0 && self.counters.contains_key(name) {
            return;
        }
        *self.counters.entry(name.to_string()).or_insert(0) += n;
    }

    pub fn max(&mut self, name: &str, v: u64) {
        let e = self.maxima.entry(name.to_string()).or_insert(0);
        if v > *e {
            *e = v;
        }
    }

    pub fn outcome(&mut self, o: impl Into<String>) {
        if self.outcomes.len() < MAX_OUTCOMES {
            self.outcomes.insert(o.into());
        }
    }

    pub fn sample(&mut self, v: Value) {
        if self.samples.len() < MAX_SAMPLES {
            self.samples.push(v);
        }
    }

    pub fn violation(&mut self, key: impl Into<String>, what: impl Into<String>, replay: Value, size: u64) {
        self.violation_count += 1;
        let key = key.into();
        match self.violations.get_mut(&key) {
            Some(v) => {
                v.count += 1;
                if size < v.size {
                    v.size = size;
                    v.what = what.into();
                    v.replay = replay;
                }
            }
            None => {
                self.violations.insert(key.clone(), Violation { key, what: what.into(), replay, size, count: 1 });
            }
        }
    }

    /// Like `violation`, but the (expensive) description is only built when it will be kept.
    pub fn violation_with(&mut self, key: &str, size: u64, build: impl FnOnce() -> (String, Value)) {
        self.violation_count += 1;
        match self.violations.get_mut(key) {
            Some(v) => {
                v.count += 1;
                if size < v.size {
                    let (what, replay) = build();
                    v.size = size;
                    v.what = what;
                    v.replay = replay;
                }
            }
            None => {
                let (what, replay) = build();
                self.violations.insert(key.to_string(), Violation { key: key.to_string(), what, replay, size, count: 1 });
            }
        }
    }

    pub fn cap(&mut self, what: impl Into<String>) {
        self.not_exhaustive = true;
        self.caps.push(what.into());
    }

    pub fn merge(&mut self, other: Report) {
        self.evaluations += other.evaluations;
        self.states += other.states;
        self.transitions += other.transitions;
        self.traces += other.traces;
        self.nontrivial += other.nontrivial;
        for (k, v) in other.counters {
            *self.counters.entry(k).or_insert(0) += v;
        }
        for (k, v) in other.maxima {
            let e = self.maxima.entry(k).or_insert(0);
            if v > *e {
                *e = v;
            }
        }
        for o in other.outcomes {
            if self.outcomes.len() < MAX_OUTCOMES {
                self.outcomes.insert(o);
            }
        }
        for s in other.samples {
            if self.samples.len() < MAX_SAMPLES {
                self.samples.push(s);
            }
        }
        self.violation_count += other.violation_count;
        for (k, v) in other.violations {
            match self.violations.get_mut(&k) {
                Some(mine) => {
                    mine.count += v.count;
                    if (v.size, &v.what) < (mine.size, &mine.what) {
                        mine.size = v.size;
                        mine.what = v.what;
                        mine.replay = v.replay;
                    }
                }
                None => {
                    self.violations.insert(k, v);
                }
            }
        }
        self.caps.extend(other.caps);
        self.notes.extend(other.notes);
        self.completed.extend(other.completed);
        self.not_exhaustive |= other.not_exhaustive;
        self.machinery_errors.extend(other.machinery_errors);
    }

    pub fn to_json(&self, property: &str, part: &str, tier: &str, wall_s: f64, rule: &str) -> Value {
        let mut counters = Map::new();
        for (k, v) in &self.counters {
            counters.insert(k.clone(), json!(v));
        }
        let mut maxima = Map::new();
        for (k, v) in &self.maxima {
            maxima.insert(k.clone(), json!(v));
        }
        let mut caps = self.caps.clone();
        caps.sort();
        caps.dedup();
        json!({
            "property": property,
            "part": part,
            "tier": tier,
            "build": crate::build_profile(),
            "wall_s": wall_s,
            "evaluations": self.evaluations,
            "states": self.states,
            "transitions": self.transitions,
            "traces_validated_against_impl": self.traces,
            "distinct_nontrivial": self.nontrivial,
            "rule": rule,
            "counters": counters,
            "maxima": maxima,
            "distinct_outcomes": self.outcomes.len(),
            "outcome_examples": self.outcomes.iter().take(8).collect::<Vec<_>>(),
            "samples": self.samples,
            "exhaustive": !self.not_exhaustive,
            "caps_hit": caps,
            "completed": self.completed,
            "notes": self.notes,
            "violation_count": self.violation_count,
            "violations": self.violations.values().map(|v| json!({
                "key": v.key, "what": v.what, "replay": v.replay, "count": v.count,
            })).collect::<Vec<_>>(),
            "machinery_errors": self.machinery_errors,
        })
    }
}

/// Command line shared by the four harness binaries:
/// `mc-x <PROP> --tier quick|thorough --out <file>` or `mc-x replay <file>`.
pub struct Cli {
    pub cmd: String,
    pub tier: crate::Tier,
    pub out: Option<String>,
    pub file: Option<String>,
    pub seed: u64,
}

pub fn parse_cli() -> Cli {
    let args: Vec<String> = std::env::args().collect();
    let mut cli = Cli {
        cmd: args.get(1).cloned().unwrap_or_default(),
        tier: crate::Tier::Quick,
        out: None,
        file: None,
        seed: std::env::var("VERIF_SEED").ok().and_then(|s| s.parse().ok()).unwrap_or(0),
    };
    let mut i = 2;
    while i < args.len() {
        match args[i].as_str() {
            "--tier" => {
                cli.tier = crate::Tier::parse(&args[i + 1]);
                i += 1;
            }
            "--out" => {
                cli.out = Some(args[i + 1].clone());
                i += 1;
            }
            other => cli.file = Some(other.to_string()),
        }
        i += 1;
    }
    cli
}

pub fn write_out(cli: &Cli, v: &Value) {
    let s = serde_json::to_string_pretty(v).unwrap();
    match &cli.out {
        Some(p) => std::fs::write(p, s).expect("cannot write report"),
        None => println!("{s}"),
    }
}

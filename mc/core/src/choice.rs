//! Choice points and the stateless, deviation-bounded depth-first explorer (engine E-choice).
//!
//! A run of the subject draws every environment answer from a [`Chooser`]: `choose(n)` returns an
//! index `0..n`, where index 0 is by convention the *default* answer. The explorer re-executes the
//! subject: it forces a recorded prefix of choices and lets every later choice point take the
//! default; then, for every later choice point and every alternative whose deviation count stays
//! within the bound, it recurses. Every execution is visited exactly once. Replaying a prefix that
//! meets a different menu size than recorded is a hard error (uncaptured nondeterminism).

use std::cell::RefCell;
use std::rc::Rc;

#[derive(Default, Debug)]
pub struct Chooser {
    /// Forced prefix: (choice, menu size recorded when the prefix was created; 0 = unknown).
    forced: Vec<(u32, u32)>,
    /// What this execution took: (choice, menu size).
    pub taken: Vec<(u32, u32)>,
    /// Set when a forced prefix did not fit the menus met while replaying it.
    pub diverged: Option<String>,
}

pub type SharedChooser = Rc<RefCell<Chooser>>;

impl Chooser {
    pub fn new(forced: Vec<(u32, u32)>) -> Self {
        Chooser { forced, taken: Vec::new(), diverged: None }
    }

    pub fn shared(forced: Vec<(u32, u32)>) -> SharedChooser {
        Rc::new(RefCell::new(Chooser::new(forced)))
    }

    /// Draw from a menu of `n >= 1` options; 0 is the default.
    pub fn choose(&mut self, n: u32) -> u32 {
        debug_assert!(n >= 1);
        let i = self.taken.len();
        let c = if i < self.forced.len() {
            let (c, rec_n) = self.forced[i];
            if (rec_n != 0 && rec_n != n) || c >= n {
                if self.diverged.is_none() {
                    self.diverged = Some(format!(
                        "choice point {i}: forced choice {c} of {rec_n} options, but the menu has {n} options"
                    ));
                }
                0
            } else {
                c
            }
        } else {
            0
        };
        self.taken.push((c, n));
        c
    }

    pub fn deviations(&self) -> usize {
        self.taken.iter().filter(|(c, _)| *c != 0).count()
    }

    pub fn choices(&self) -> Vec<u32> {
        self.taken.iter().map(|(c, _)| *c).collect()
    }
}

#[derive(Default, Debug, Clone, Copy)]
pub struct ExploreStats {
    pub executions: u64,
    pub choice_points: u64,
    pub max_deviations: usize,
    pub max_choice_points: usize,
    /// true if the exploration stopped because `stop()` returned true.
    pub stopped: bool,
}

/// Explore all executions with at most `bound` deviations (`None` = all executions).
///
/// `run` executes the subject once with the given forced prefix and returns the choices taken
/// (with menu sizes) — normally by handing a `Chooser::new(prefix)` to the environment and returning
/// `chooser.taken` afterwards. It must be deterministic given the prefix.
pub fn explore(
    bound: Option<usize>,
    mut run: impl FnMut(Vec<(u32, u32)>) -> Result<Vec<(u32, u32)>, String>,
    mut stop: impl FnMut() -> bool,
) -> Result<ExploreStats, String> {
    let mut stats = ExploreStats::default();
    let mut stack: Vec<Vec<(u32, u32)>> = vec![vec![]];
    while let Some(prefix) = stack.pop() {
        if stop() {
            stats.stopped = true;
            break;
        }
        let plen = prefix.len();
        let taken = run(prefix)?;
        stats.executions += 1;
        stats.choice_points += taken.len() as u64;
        stats.max_choice_points = stats.max_choice_points.max(taken.len());
        let mut dev = taken[..plen.min(taken.len())].iter().filter(|(c, _)| *c != 0).count();
        stats.max_deviations = stats.max_deviations.max(taken.iter().filter(|(c, _)| *c != 0).count());
        if taken.len() < plen {
            return Err(format!("execution took {} choices but the forced prefix has {}", taken.len(), plen));
        }
        // Push alternatives in reverse so that they are explored in canonical order.
        let mut new: Vec<Vec<(u32, u32)>> = Vec::new();
        for i in plen..taken.len() {
            let (c, n) = taken[i];
            debug_assert_eq!(c, 0);
            if bound.map_or(true, |b| dev + 1 <= b) {
                for alt in 1..n {
                    let mut p: Vec<(u32, u32)> = taken[..i].to_vec();
                    p.push((alt, n));
                    new.push(p);
                }
            }
            if c != 0 {
                dev += 1;
            }
        }
        while let Some(p) = new.pop() {
            stack.push(p);
        }
    }
    Ok(stats)
}

#[cfg(test)]
mod tests {
    use super::*;

    #[test]
    fn counts_compositions() {
        // Deliver n bytes in reads of any positive size: 2^(n-1) executions.
        for n in 1..10u32 {
            let st = explore(
                None,
                |prefix| {
                    let mut ch = Chooser::new(prefix);
                    let mut left = n;
                    while left > 0 {
                        // menu: [left, 1, 2, .., left-1]
                        let c = ch.choose(left);
                        let k = if c == 0 { left } else { c };
                        left -= k;
                    }
                    Ok(ch.taken)
                },
                || false,
            )
            .unwrap();
            assert_eq!(st.executions, 1 << (n - 1));
        }
    }

    #[test]
    fn deviation_bound() {
        // 5 binary choice points, bound d: sum_{k<=d} C(5,k)
        let count = |d| {
            explore(
                Some(d),
                |prefix| {
                    let mut ch = Chooser::new(prefix);
                    for _ in 0..5 {
                        ch.choose(2);
                    }
                    Ok(ch.taken)
                },
                || false,
            )
            .unwrap()
            .executions
        };
        assert_eq!(count(0), 1);
        assert_eq!(count(1), 6);
        assert_eq!(count(2), 16);
        assert_eq!(count(5), 32);
    }
}

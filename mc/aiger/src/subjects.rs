//! The AIGER parsers (ASCII / binary; whole-file `parse()` and streaming section readers) as subjects.

use flussab::text::LineReader;
use flussab::DeferredReader;
use flussab_aiger::aig::{Aig, OrderedAig, Symbol};
use flussab_aiger::{ascii, binary, InnerParseError, Lit, ParseError};
use mc_core::subject::{End, Subject};
use std::marker::PhantomData;

pub fn end_of(e: ParseError) -> End {
    match *e {
        InnerParseError::SyntaxError(s) => End::Syntax { line: s.location.line, column: s.location.column, msg: s.msg },
        InnerParseError::IoError(e) => End::Io(mc_core::source::render_io_error(&e)),
    }
}

pub trait LitName: Lit + Send + Sync + 'static {
    const NAME: &'static str;
}
macro_rules! lit_name { ($($t:ty),*) => {$( impl LitName for $t { const NAME: &'static str = stringify!($t); } )*}; }
lit_name!(u8, u16, u32, u64, usize);

pub fn codes<L: Lit>(v: &[L]) -> Vec<usize> {
    v.iter().map(|l| l.code()).collect()
}

pub fn show_symbol(s: &Symbol) -> String {
    format!("symbol {:?} {:?}", s.target, s.name.as_bytes())
}

pub fn show_aig<L: Lit>(a: &Aig<L>) -> String {
    format!(
        "aig M={} inputs={:?} latches={:?} outputs={:?} bad={:?} constraints={:?} justice={:?} fairness={:?} ands={:?} symbols={:?} comment={:?}",
        a.max_var_index,
        codes(&a.inputs),
        a.latches.iter().map(|l| (l.state.code(), l.next_state.code(), l.initialization)).collect::<Vec<_>>(),
        codes(&a.outputs),
        codes(&a.bad_state_properties),
        codes(&a.invariant_constraints),
        a.justice_properties.iter().map(|j| codes(j)).collect::<Vec<_>>(),
        codes(&a.fairness_constraints),
        a.and_gates.iter().map(|g| (g.output.code(), g.inputs[0].code(), g.inputs[1].code())).collect::<Vec<_>>(),
        a.symbols.iter().map(|s| (s.target, s.name.as_bytes().to_vec())).collect::<Vec<_>>(),
        a.comment.as_ref().map(|c| c.as_bytes().to_vec()),
    )
}

pub fn show_ordered<L: Lit>(a: &OrderedAig<L>) -> String {
    format!(
        "ordered M={} I={} latches={:?} outputs={:?} bad={:?} constraints={:?} justice={:?} fairness={:?} ands={:?} symbols={:?} comment={:?}",
        a.max_var_index,
        a.input_count,
        a.latches.iter().map(|l| (l.next_state.code(), l.initialization)).collect::<Vec<_>>(),
        codes(&a.outputs),
        codes(&a.bad_state_properties),
        codes(&a.invariant_constraints),
        a.justice_properties.iter().map(|j| codes(j)).collect::<Vec<_>>(),
        codes(&a.fairness_constraints),
        a.and_gates.iter().map(|g| (g.inputs[0].code(), g.inputs[1].code())).collect::<Vec<_>>(),
        a.symbols.iter().map(|s| (s.target, s.name.as_bytes().to_vec())).collect::<Vec<_>>(),
        a.comment.as_ref().map(|c| c.as_bytes().to_vec()),
    )
}

macro_rules! tri {
    ($e:expr) => {
        match $e {
            Ok(v) => v,
            Err(e) => return end_of(e),
        }
    };
}

pub struct AagParse<L>(pub PhantomData<fn() -> L>);
impl<L: LitName> Subject for AagParse<L> {
    fn name(&self) -> String {
        format!("aag-parse<{}>", L::NAME)
    }
    fn streaming(&self) -> bool {
        false
    }
    fn run(&self, reader: DeferredReader<'_>, emit: &mut dyn FnMut(String)) -> End {
        let p = tri!(ascii::Parser::<L>::new(LineReader::new(reader), ascii::Config::default()));
        let aig = tri!(p.parse());
        emit(show_aig(&aig));
        End::Clean
    }
}

/// parse() followed by the renumbering of what was parsed under all eight option combinations:
/// arbitrary accepted text (cycles, undefined and doubly defined literals included) must give a
/// circuit or a structure error, never a panic or a hang (C05 anchors aig.rs as well).
fn renumber_all<L: LitName>(aig: &Aig<L>, emit: &mut dyn FnMut(String)) {
    use flussab_aiger::aig::{Renumber, RenumberConfig};
    for bits in 0..8u8 {
        let cfg = RenumberConfig::default().trim(bits & 1 != 0).structural_hash(bits & 2 != 0).const_fold(bits & 4 != 0);
        match Renumber::renumber_aig(cfg, aig) {
            Ok((o, _)) => emit(format!("renumber {bits}: M={} gates={}", o.max_var_index, o.and_gates.len())),
            Err(e) => emit(format!("renumber {bits}: {}", match e { flussab_aiger::aig::AigStructureError::LitAlreadyDefined { .. } => "already defined", flussab_aiger::aig::AigStructureError::LitNotDefined { .. } => "not defined", flussab_aiger::aig::AigStructureError::FoundCycle { .. } => "cycle" })),
        }
    }
}

pub struct AagRenumber<L>(pub PhantomData<fn() -> L>);
impl<L: LitName> Subject for AagRenumber<L> {
    fn name(&self) -> String {
        format!("aag-renumber<{}>", L::NAME)
    }
    fn streaming(&self) -> bool {
        false
    }
    fn run(&self, reader: DeferredReader<'_>, emit: &mut dyn FnMut(String)) -> End {
        let p = tri!(ascii::Parser::<L>::new(LineReader::new(reader), ascii::Config::default()));
        let aig = tri!(p.parse());
        renumber_all(&aig, emit);
        End::Clean
    }
}

pub struct AigRenumber<L>(pub PhantomData<fn() -> L>);
impl<L: LitName> Subject for AigRenumber<L> {
    fn name(&self) -> String {
        format!("aig-renumber<{}>", L::NAME)
    }
    fn streaming(&self) -> bool {
        false
    }
    fn run(&self, reader: DeferredReader<'_>, emit: &mut dyn FnMut(String)) -> End {
        let p = tri!(binary::Parser::<L>::new(LineReader::new(reader), binary::Config::default()));
        let ordered = tri!(p.parse());
        let aig: Aig<L> = ordered.into();
        renumber_all(&aig, emit);
        End::Clean
    }
    fn boundaries(&self, input: &[u8]) -> Vec<usize> {
        binary_boundaries(input)
    }
}

pub struct AagStream<L>(pub PhantomData<fn() -> L>);
impl<L: LitName> Subject for AagStream<L> {
    fn name(&self) -> String {
        format!("aag-stream<{}>", L::NAME)
    }
    fn run(&self, reader: DeferredReader<'_>, emit: &mut dyn FnMut(String)) -> End {
        let p = tri!(ascii::Parser::<L>::new(LineReader::new(reader), ascii::Config::default()));
        emit(format!("header {:?}", p.header()));
        let mut r = tri!(p.inputs());
        while let Some(x) = tri!(r.next_input()) {
            emit(format!("input {}", x.code()));
        }
        if tri!(r.next_input()).is_some() {
            emit("AFTER-END: next_input handed out another entry after the end of its section".to_string());
        }
        let mut r = tri!(r.latches());
        while let Some(l) = tri!(r.next_latch()) {
            emit(format!("latch {} {} {:?}", l.state.code(), l.next_state.code(), l.initialization));
        }
        if tri!(r.next_latch()).is_some() {
            emit("AFTER-END: next_latch handed out another entry after the end of its section".to_string());
        }
        let mut r = tri!(r.outputs());
        while let Some(x) = tri!(r.next_output()) {
            emit(format!("output {}", x.code()));
        }
        if tri!(r.next_output()).is_some() {
            emit("AFTER-END: next_output handed out another entry after the end of its section".to_string());
        }
        let mut r = tri!(r.bad_state_properties());
        while let Some(x) = tri!(r.next_bad_state_property()) {
            emit(format!("bad {}", x.code()));
        }
        if tri!(r.next_bad_state_property()).is_some() {
            emit("AFTER-END: next_bad_state_property handed out another entry after the end of its section".to_string());
        }
        let mut r = tri!(r.invariant_constraints());
        while let Some(x) = tri!(r.next_invariant_constraint()) {
            emit(format!("constraint {}", x.code()));
        }
        if tri!(r.next_invariant_constraint()).is_some() {
            emit("AFTER-END: next_invariant_constraint handed out another entry after the end of its section".to_string());
        }
        let mut r = tri!(r.justice_properties());
        while let Some(x) = tri!(r.next_justice_property_size()) {
            emit(format!("justicesize {}", x));
        }
        if tri!(r.next_justice_property_size()).is_some() {
            emit("AFTER-END: next_justice_property_size handed out another entry after the end of its section".to_string());
        }
        let mut r = tri!(r.justice_property_local_fairness_constraints());
        while let Some(x) = tri!(r.next_justice_property_local_fairness_constraint()) {
            emit(format!("justicelit {}", x.code()));
        }
        if tri!(r.next_justice_property_local_fairness_constraint()).is_some() {
            emit("AFTER-END: next_justice_property_local_fairness_constraint handed out another entry after the end of its section".to_string());
        }
        let mut r = tri!(r.fairness_constraints());
        while let Some(x) = tri!(r.next_fairness_constraint()) {
            emit(format!("fairness {}", x.code()));
        }
        if tri!(r.next_fairness_constraint()).is_some() {
            emit("AFTER-END: next_fairness_constraint handed out another entry after the end of its section".to_string());
        }
        let mut r = tri!(r.and_gates());
        while let Some(g) = tri!(r.next_and_gate()) {
            emit(format!("and {} {} {}", g.output.code(), g.inputs[0].code(), g.inputs[1].code()));
        }
        if tri!(r.next_and_gate()).is_some() {
            emit("AFTER-END: next_and_gate handed out another entry after the end of its section".to_string());
        }
        let mut r = tri!(r.symbols());
        loop {
            match r.next_symbol() {
                Ok(Some(s)) => emit(show_symbol(&s)),
                Ok(None) => break,
                Err(e) => return end_of(e),
            }
        }
        match r.comment() {
            Ok(Some(c)) => {
                let c = c.as_bytes().to_vec();
                emit(format!("comment {:?}", c));
            }
            Ok(None) => {}
            Err(e) => return end_of(e),
        }
        End::Clean
    }
}

/// Streaming API used the lazy way: every section is skipped by asking for the next one.
pub struct AagSkip<L>(pub PhantomData<fn() -> L>);
impl<L: LitName> Subject for AagSkip<L> {
    fn name(&self) -> String {
        format!("aag-skip<{}>", L::NAME)
    }
    fn streaming(&self) -> bool {
        false
    }
    fn run(&self, reader: DeferredReader<'_>, emit: &mut dyn FnMut(String)) -> End {
        let p = tri!(ascii::Parser::<L>::new(LineReader::new(reader), ascii::Config::default()));
        emit(format!("header {:?}", p.header()));
        let r = tri!(p.inputs());
        let r = tri!(r.latches());
        let r = tri!(r.outputs());
        let r = tri!(r.bad_state_properties());
        let r = tri!(r.invariant_constraints());
        let r = tri!(r.justice_properties());
        let r = tri!(r.justice_property_local_fairness_constraints());
        let r = tri!(r.fairness_constraints());
        let r = tri!(r.and_gates());
        let mut r = tri!(r.symbols());
        match r.comment() {
            Ok(Some(c)) => {
                let c = c.as_bytes().to_vec();
                emit(format!("comment {:?}", c));
            }
            Ok(None) => {}
            Err(e) => return end_of(e),
        }
        End::Clean
    }
}

pub struct AigSkip<L>(pub PhantomData<fn() -> L>);
impl<L: LitName> Subject for AigSkip<L> {
    fn name(&self) -> String {
        format!("aig-skip<{}>", L::NAME)
    }
    fn streaming(&self) -> bool {
        false
    }
    fn boundaries(&self, input: &[u8]) -> Vec<usize> {
        binary_boundaries(input)
    }
    fn run(&self, reader: DeferredReader<'_>, emit: &mut dyn FnMut(String)) -> End {
        let p = tri!(binary::Parser::<L>::new(LineReader::new(reader), binary::Config::default()));
        emit(format!("header {:?}", p.header()));
        let r = tri!(p.latches());
        let r = tri!(r.outputs());
        let r = tri!(r.bad_state_properties());
        let r = tri!(r.invariant_constraints());
        let r = tri!(r.justice_properties());
        let r = tri!(r.justice_property_local_fairness_constraints());
        let r = tri!(r.fairness_constraints());
        let r = tri!(r.and_gates());
        let mut r = tri!(r.symbols());
        match r.comment() {
            Ok(Some(c)) => {
                let c = c.as_bytes().to_vec();
                emit(format!("comment {:?}", c));
            }
            Ok(None) => {}
            Err(e) => return end_of(e),
        }
        End::Clean
    }
}

/// Streaming API with PARTIAL consumption: of section k only the first `limits[k]` entries are read
/// before the next section is asked for (0 = the section is skipped, usize::MAX = read to its end).
/// Sections: 0 inputs, 1 latches, 2 outputs, 3 bad, 4 constraints, 5 justice sizes, 6 justice
/// literals, 7 fairness, 8 and gates, 9 symbols. Whatever is handed out must be what the complete
/// stream hands out for the same entries.
pub const MIXED_MODES: u8 = 21;
pub const MIXED_TAGS: [&str; 10] = ["input ", "latch ", "output ", "bad ", "constraint ", "justicesize ", "justicelit ", "fairness ", "and ", "symbol "];
pub fn mixed_limits(mode: u8) -> [usize; 10] {
    let mut l = [usize::MAX; 10];
    match mode {
        0..=9 => l[mode as usize] = 0,
        10..=19 => l[mode as usize - 10] = 1,
        _ => l = [1; 10],
    }
    l
}

/// The items of the complete stream that a partial consumption with these limits must hand out.
pub fn mixed_expected(full: &[String], limits: &[usize; 10]) -> Vec<String> {
    let mut seen = [0usize; 10];
    let mut out = Vec::new();
    for it in full {
        match MIXED_TAGS.iter().position(|t| it.starts_with(t)) {
            Some(k) => {
                if seen[k] < limits[k] {
                    out.push(it.clone());
                }
                seen[k] += 1;
            }
            None => out.push(it.clone()),
        }
    }
    out
}

macro_rules! section {
    ($r:ident, $next:ident, $limit:expr, $emit:ident, $x:ident => $fmt:expr) => {{
        let mut n = 0usize;
        while n < $limit {
            match tri!($r.$next()) {
                Some($x) => $emit($fmt),
                None => break,
            }
            n += 1;
        }
    }};
}

pub struct AagMixed<L>(pub u8, pub PhantomData<fn() -> L>);
impl<L: LitName> Subject for AagMixed<L> {
    fn name(&self) -> String {
        format!("aag-mixed{}<{}>", self.0, L::NAME)
    }
    fn streaming(&self) -> bool {
        false
    }
    fn run(&self, reader: DeferredReader<'_>, emit: &mut dyn FnMut(String)) -> End {
        let lim = mixed_limits(self.0);
        let p = tri!(ascii::Parser::<L>::new(LineReader::new(reader), ascii::Config::default()));
        emit(format!("header {:?}", p.header()));
        let mut r = tri!(p.inputs());
        section!(r, next_input, lim[0], emit, x => format!("input {}", x.code()));
        let mut r = tri!(r.latches());
        section!(r, next_latch, lim[1], emit, l => format!("latch {} {} {:?}", l.state.code(), l.next_state.code(), l.initialization));
        let mut r = tri!(r.outputs());
        section!(r, next_output, lim[2], emit, x => format!("output {}", x.code()));
        let mut r = tri!(r.bad_state_properties());
        section!(r, next_bad_state_property, lim[3], emit, x => format!("bad {}", x.code()));
        let mut r = tri!(r.invariant_constraints());
        section!(r, next_invariant_constraint, lim[4], emit, x => format!("constraint {}", x.code()));
        let mut r = tri!(r.justice_properties());
        section!(r, next_justice_property_size, lim[5], emit, x => format!("justicesize {}", x));
        let mut r = tri!(r.justice_property_local_fairness_constraints());
        section!(r, next_justice_property_local_fairness_constraint, lim[6], emit, x => format!("justicelit {}", x.code()));
        let mut r = tri!(r.fairness_constraints());
        section!(r, next_fairness_constraint, lim[7], emit, x => format!("fairness {}", x.code()));
        let mut r = tri!(r.and_gates());
        section!(r, next_and_gate, lim[8], emit, g => format!("and {} {} {}", g.output.code(), g.inputs[0].code(), g.inputs[1].code()));
        let mut r = tri!(r.symbols());
        section!(r, next_symbol, lim[9], emit, s => show_symbol(&s));
        match r.comment() {
            Ok(Some(c)) => {
                let c = c.as_bytes().to_vec();
                emit(format!("comment {:?}", c));
            }
            Ok(None) => {}
            Err(e) => return end_of(e),
        }
        End::Clean
    }
}

pub struct AigMixed<L>(pub u8, pub PhantomData<fn() -> L>);
impl<L: LitName> Subject for AigMixed<L> {
    fn name(&self) -> String {
        format!("aig-mixed{}<{}>", self.0, L::NAME)
    }
    fn streaming(&self) -> bool {
        false
    }
    fn boundaries(&self, input: &[u8]) -> Vec<usize> {
        binary_boundaries(input)
    }
    fn run(&self, reader: DeferredReader<'_>, emit: &mut dyn FnMut(String)) -> End {
        let lim = mixed_limits(self.0);
        let p = tri!(binary::Parser::<L>::new(LineReader::new(reader), binary::Config::default()));
        emit(format!("header {:?}", p.header()));
        let mut r = tri!(p.latches());
        section!(r, next_latch, lim[1], emit, l => format!("latch {} {:?}", l.next_state.code(), l.initialization));
        let mut r = tri!(r.outputs());
        section!(r, next_output, lim[2], emit, x => format!("output {}", x.code()));
        let mut r = tri!(r.bad_state_properties());
        section!(r, next_bad_state_property, lim[3], emit, x => format!("bad {}", x.code()));
        let mut r = tri!(r.invariant_constraints());
        section!(r, next_invariant_constraint, lim[4], emit, x => format!("constraint {}", x.code()));
        let mut r = tri!(r.justice_properties());
        section!(r, next_justice_property_size, lim[5], emit, x => format!("justicesize {}", x));
        let mut r = tri!(r.justice_property_local_fairness_constraints());
        section!(r, next_justice_property_local_fairness_constraint, lim[6], emit, x => format!("justicelit {}", x.code()));
        let mut r = tri!(r.fairness_constraints());
        section!(r, next_fairness_constraint, lim[7], emit, x => format!("fairness {}", x.code()));
        let mut r = tri!(r.and_gates());
        section!(r, next_and_gate, lim[8], emit, g => format!("and {} {}", g.inputs[0].code(), g.inputs[1].code()));
        let mut r = tri!(r.symbols());
        section!(r, next_symbol, lim[9], emit, s => show_symbol(&s));
        match r.comment() {
            Ok(Some(c)) => {
                let c = c.as_bytes().to_vec();
                emit(format!("comment {:?}", c));
            }
            Ok(None) => {}
            Err(e) => return end_of(e),
        }
        End::Clean
    }
}

pub struct AigParse<L>(pub PhantomData<fn() -> L>);
impl<L: LitName> Subject for AigParse<L> {
    fn name(&self) -> String {
        format!("aig-parse<{}>", L::NAME)
    }
    fn streaming(&self) -> bool {
        false
    }
    fn run(&self, reader: DeferredReader<'_>, emit: &mut dyn FnMut(String)) -> End {
        let p = tri!(binary::Parser::<L>::new(LineReader::new(reader), binary::Config::default()));
        let aig = tri!(p.parse());
        emit(show_ordered(&aig));
        End::Clean
    }
    fn boundaries(&self, input: &[u8]) -> Vec<usize> {
        binary_boundaries(input)
    }
}

pub struct AigStream<L>(pub PhantomData<fn() -> L>);
impl<L: LitName> Subject for AigStream<L> {
    fn name(&self) -> String {
        format!("aig-stream<{}>", L::NAME)
    }
    fn boundaries(&self, input: &[u8]) -> Vec<usize> {
        binary_boundaries(input)
    }
    fn run(&self, reader: DeferredReader<'_>, emit: &mut dyn FnMut(String)) -> End {
        let p = tri!(binary::Parser::<L>::new(LineReader::new(reader), binary::Config::default()));
        emit(format!("header {:?}", p.header()));
        let mut r = tri!(p.latches());
        while let Some(l) = tri!(r.next_latch()) {
            emit(format!("latch {} {:?}", l.next_state.code(), l.initialization));
        }
        if tri!(r.next_latch()).is_some() {
            emit("AFTER-END: next_latch handed out another entry after the end of its section".to_string());
        }
        let mut r = tri!(r.outputs());
        while let Some(x) = tri!(r.next_output()) {
            emit(format!("output {}", x.code()));
        }
        if tri!(r.next_output()).is_some() {
            emit("AFTER-END: next_output handed out another entry after the end of its section".to_string());
        }
        let mut r = tri!(r.bad_state_properties());
        while let Some(x) = tri!(r.next_bad_state_property()) {
            emit(format!("bad {}", x.code()));
        }
        if tri!(r.next_bad_state_property()).is_some() {
            emit("AFTER-END: next_bad_state_property handed out another entry after the end of its section".to_string());
        }
        let mut r = tri!(r.invariant_constraints());
        while let Some(x) = tri!(r.next_invariant_constraint()) {
            emit(format!("constraint {}", x.code()));
        }
        if tri!(r.next_invariant_constraint()).is_some() {
            emit("AFTER-END: next_invariant_constraint handed out another entry after the end of its section".to_string());
        }
        let mut r = tri!(r.justice_properties());
        while let Some(x) = tri!(r.next_justice_property_size()) {
            emit(format!("justicesize {}", x));
        }
        if tri!(r.next_justice_property_size()).is_some() {
            emit("AFTER-END: next_justice_property_size handed out another entry after the end of its section".to_string());
        }
        let mut r = tri!(r.justice_property_local_fairness_constraints());
        while let Some(x) = tri!(r.next_justice_property_local_fairness_constraint()) {
            emit(format!("justicelit {}", x.code()));
        }
        if tri!(r.next_justice_property_local_fairness_constraint()).is_some() {
            emit("AFTER-END: next_justice_property_local_fairness_constraint handed out another entry after the end of its section".to_string());
        }
        let mut r = tri!(r.fairness_constraints());
        while let Some(x) = tri!(r.next_fairness_constraint()) {
            emit(format!("fairness {}", x.code()));
        }
        if tri!(r.next_fairness_constraint()).is_some() {
            emit("AFTER-END: next_fairness_constraint handed out another entry after the end of its section".to_string());
        }
        let mut r = tri!(r.and_gates());
        while let Some(g) = tri!(r.next_and_gate()) {
            emit(format!("and {} {}", g.inputs[0].code(), g.inputs[1].code()));
        }
        if tri!(r.next_and_gate()).is_some() {
            emit("AFTER-END: next_and_gate handed out another entry after the end of its section".to_string());
        }
        let mut r = tri!(r.symbols());
        loop {
            match r.next_symbol() {
                Ok(Some(s)) => emit(show_symbol(&s)),
                Ok(None) => break,
                Err(e) => return end_of(e),
            }
        }
        match r.comment() {
            Ok(Some(c)) => {
                let c = c.as_bytes().to_vec();
                emit(format!("comment {:?}", c));
            }
            Ok(None) => {}
            Err(e) => return end_of(e),
        }
        End::Clean
    }
}

/// Gating units of a binary AIGER file: text lines, except inside the and-gate section where every
/// byte is its own unit (the gating unit there is the encoded gate, see DESIGN C09).
/// Independent of flussab: header split on blanks, section sizes counted in lines.
pub fn binary_boundaries(input: &[u8]) -> Vec<usize> {
    let lf_bounds = |from: usize, v: &mut Vec<usize>| {
        for (i, &b) in input.iter().enumerate().skip(from) {
            if b == b'\n' {
                v.push(i + 1);
            }
        }
        if v.last() != Some(&input.len()) {
            v.push(input.len());
        }
    };
    let mut v = Vec::new();
    let header_end = match input.iter().position(|&b| b == b'\n') {
        Some(p) => p,
        None => {
            lf_bounds(0, &mut v);
            return v;
        }
    };
    let fields: Vec<usize> = std::str::from_utf8(&input[..header_end]).unwrap_or("").split(' ').skip(1).filter_map(|f| f.parse().ok()).collect();
    if fields.len() < 5 || !input.starts_with(b"aig ") {
        lf_bounds(0, &mut v);
        return v;
    }
    let get = |i: usize| fields.get(i).copied().unwrap_or(0);
    let (l, o, a, b, c, j, f) = (get(2), get(3), get(4), get(5), get(6), get(7), get(8));
    // text lines before the justice sizes
    let mut pos = header_end + 1;
    v.push(pos);
    let mut skip_lines = |n: usize, pos: &mut usize, v: &mut Vec<usize>| -> Vec<usize> {
        let mut starts = Vec::new();
        for _ in 0..n {
            if *pos >= input.len() {
                break;
            }
            starts.push(*pos);
            match input[*pos..].iter().position(|&x| x == b'\n') {
                Some(p) => *pos += p + 1,
                None => *pos = input.len(),
            }
            v.push(*pos);
        }
        starts
    };
    skip_lines(l.saturating_add(o).saturating_add(b).saturating_add(c).min(input.len()), &mut pos, &mut v);
    let size_lines = skip_lines(j.min(input.len()), &mut pos, &mut v);
    let mut total = 0usize;
    for s in size_lines {
        let end = input[s..].iter().position(|&x| x == b'\n').map_or(input.len(), |p| s + p);
        total = total.saturating_add(std::str::from_utf8(&input[s..end]).ok().and_then(|t| t.parse::<usize>().ok()).unwrap_or(0));
    }
    skip_lines(total.saturating_add(f).min(input.len()), &mut pos, &mut v);
    // binary section: 2*a varints, every byte is a boundary
    let mut varints = 0usize;
    while pos < input.len() && varints < a.saturating_mul(2) {
        if input[pos] & 0x80 == 0 {
            varints += 1;
        }
        pos += 1;
        v.push(pos);
    }
    lf_bounds(pos, &mut v);
    v.sort();
    v.dedup();
    v
}

/// Byte range of the and-gate section of a binary AIGER file (empty range if not determinable).
#[allow(dead_code)]
pub fn binary_section(input: &[u8]) -> (usize, usize) {
    let b = binary_boundaries(input);
    // inside the section every byte is a boundary: find the maximal run of consecutive boundaries
    // that starts right after a text line; the construction in binary_boundaries pushes them in order
    let header_end = match input.iter().position(|&x| x == b'\n') {
        Some(p) => p,
        None => return (0, 0),
    };
    let fields: Vec<usize> = std::str::from_utf8(&input[..header_end]).unwrap_or("").split(' ').skip(1).filter_map(|f| f.parse().ok()).collect();
    if fields.len() < 5 || !input.starts_with(b"aig ") {
        return (0, 0);
    }
    let get = |i: usize| fields.get(i).copied().unwrap_or(0);
    let (l, o, a, bb, c, j, f) = (get(2), get(3), get(4), get(5), get(6), get(7), get(8));
    let mut pos = header_end + 1;
    let mut skip = |n: usize, pos: &mut usize| -> Vec<usize> {
        let mut starts = Vec::new();
        for _ in 0..n {
            if *pos >= input.len() {
                break;
            }
            starts.push(*pos);
            match input[*pos..].iter().position(|&x| x == b'\n') {
                Some(p) => *pos += p + 1,
                None => *pos = input.len(),
            }
        }
        starts
    };
    skip(l.saturating_add(o).saturating_add(bb).saturating_add(c).min(input.len()), &mut pos);
    let sizes = skip(j.min(input.len()), &mut pos);
    let mut total = 0usize;
    for s in sizes {
        let end = input[s..].iter().position(|&x| x == b'\n').map_or(input.len(), |p| s + p);
        total = total.saturating_add(std::str::from_utf8(&input[s..end]).ok().and_then(|t| t.parse::<usize>().ok()).unwrap_or(0));
    }
    skip(total.saturating_add(f).min(input.len()), &mut pos);
    let lo = pos;
    let mut varints = 0usize;
    while pos < input.len() && varints < a.saturating_mul(2) {
        if input[pos] & 0x80 == 0 {
            varints += 1;
        }
        pos += 1;
    }
    let _ = b;
    (lo, pos)
}

macro_rules! with_lit {
    ($name:expr, $f:ident, $($arg:expr),*) => {
        match $name {
            "u8" => $f::<u8>($($arg),*),
            "u16" => $f::<u16>($($arg),*),
            "u32" => $f::<u32>($($arg),*),
            "u64" => $f::<u64>($($arg),*),
            "usize" => $f::<usize>($($arg),*),
            other => panic!("unknown literal type {other}"),
        }
    };
}

fn mk<L: LitName>(kind: &str) -> Box<dyn Subject> {
    match kind {
        "aag-parse" => Box::new(AagParse::<L>(PhantomData)),
        "aag-renumber" => Box::new(AagRenumber::<L>(PhantomData)),
        "aig-renumber" => Box::new(AigRenumber::<L>(PhantomData)),
        "aag-stream" => Box::new(AagStream::<L>(PhantomData)),
        "aig-parse" => Box::new(AigParse::<L>(PhantomData)),
        "aag-skip" => Box::new(AagSkip::<L>(PhantomData)),
        "aig-skip" => Box::new(AigSkip::<L>(PhantomData)),
        "aig-stream" => Box::new(AigStream::<L>(PhantomData)),
        other => {
            if let Some(m) = other.strip_prefix("aag-mixed").and_then(|m| m.parse::<u8>().ok()) {
                return Box::new(AagMixed::<L>(m, PhantomData));
            }
            if let Some(m) = other.strip_prefix("aig-mixed").and_then(|m| m.parse::<u8>().ok()) {
                return Box::new(AigMixed::<L>(m, PhantomData));
            }
            panic!("unknown subject kind {other}")
        }
    }
}

pub fn make(kind: &str, lit: &str) -> Box<dyn Subject> {
    with_lit!(lit, mk, kind)
}

pub fn by_name(name: &str) -> Box<dyn Subject> {
    let kind = name.split('<').next().unwrap();
    let lit = name.split('<').nth(1).unwrap().split('>').next().unwrap();
    make(kind, lit)
}

pub const LITS: [&str; 5] = ["u8", "u16", "u32", "u64", "usize"];

/// format = "aag" | "aig"
pub fn subjects(format: &str, lits: &[&str]) -> Vec<Box<dyn Subject>> {
    let mut v = Vec::new();
    for l in lits {
        v.push(make(&format!("{format}-parse"), l));
        v.push(make(&format!("{format}-stream"), l));
    }
    // the lazy way of using the streaming API, once
    v.push(make(&format!("{format}-skip"), lits[0]));
    v
}

/// Public convenience constructors of the AIGER parsers (u32 literals): observation of `parse()`.
pub fn via_constructors(format: &str, input: &[u8]) -> Vec<(&'static str, Vec<String>, End)> {
    use std::io::{BufRead, BufReader};
    let mut out = Vec::new();
    let prefilled = |cap: usize| {
        let mut br = BufReader::with_capacity(cap, input);
        let _ = br.fill_buf();
        br
    };
    if format == "aag" {
        let mut run = |name: &'static str, p: Result<ascii::Parser<u32>, ParseError>| {
            let r = p.and_then(|p| p.parse());
            match r {
                Ok(a) => out.push((name, vec![show_aig(&a)], End::Clean)),
                Err(e) => out.push((name, vec![], end_of(e))),
            }
        };
        run("from_read", ascii::Parser::<u32>::from_read(input, ascii::Config::default()));
        run("from_buf_reader", ascii::Parser::<u32>::from_buf_reader(prefilled(6), ascii::Config::default()));
        run("from_buf_reader(capacity 0)", ascii::Parser::<u32>::from_buf_reader(prefilled(0), ascii::Config::default()));
        run("from_buf_reader(capacity 1)", ascii::Parser::<u32>::from_buf_reader(prefilled(1), ascii::Config::default()));
        run("from_boxed_dyn_read", ascii::Parser::<u32>::from_boxed_dyn_read(Box::new(input), ascii::Config::default()));
    } else {
        let mut run = |name: &'static str, p: Result<binary::Parser<u32>, ParseError>| {
            let r = p.and_then(|p| p.parse());
            match r {
                Ok(a) => out.push((name, vec![show_ordered(&a)], End::Clean)),
                Err(e) => out.push((name, vec![], end_of(e))),
            }
        };
        run("from_read", binary::Parser::<u32>::from_read(input, binary::Config::default()));
        run("from_buf_reader", binary::Parser::<u32>::from_buf_reader(prefilled(6), binary::Config::default()));
        run("from_buf_reader(capacity 0)", binary::Parser::<u32>::from_buf_reader(prefilled(0), binary::Config::default()));
        run("from_buf_reader(capacity 1)", binary::Parser::<u32>::from_buf_reader(prefilled(1), binary::Config::default()));
        run("from_boxed_dyn_read", binary::Parser::<u32>::from_boxed_dyn_read(Box::new(input), binary::Config::default()));
    }
    out
}

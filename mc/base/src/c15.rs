//! C15 — parser combinators implement exact three-way choice semantics.
//!
//! E-enum, complete: every program of up to 3 (quick) / 5 (thorough) type-preserving combinators followed by an optional
//! terminal (type-changing) combinator, applied to every initial case, with every outcome of every
//! closure. The real `flussab::Parsed` / `ResultExt` methods are executed with instrumented closures
//! (invocation count + argument seen) and compared with a reference interpreter of the three-valued
//! semantics written from the documentation.

use flussab::{Parsed, Parsed::*, ResultExt};
use mc_core::report::Report;
use mc_core::{json, Tier, Value};

type P = Parsed<i64, i64>;
type R = Result<i64, i64>;

/// Reference value: the three cases (and the shapes terminals produce).
#[derive(Clone, Debug, PartialEq, Eq)]
enum V {
    F,
    Ok(i64),
    Err(i64),
}

#[derive(Clone, Debug, PartialEq, Eq)]
enum Alt3 {
    F,
    Ok,
    Err,
}

#[derive(Clone, Debug, PartialEq, Eq)]
enum Instr {
    OrParse(Alt3),
    OrAlwaysParse(bool),     // closure returns Ok / Err
    OrGiveUpFrom,            // or_give_up(..) then From<Result>
    AndThen(bool),           // closure returns Ok(g(v)) / Err
    AndAlso { mutate: bool, ok: bool },
    AndDo { mutate: bool },
    Map,
    MapErr,
    ErrIntoSame,             // err_into::<i64>() (From<T> for T)
    FromResultRoundTrip,     // optional-free: Res(r) -> or_give_up(unused) -> From
}

#[derive(Clone, Debug, PartialEq, Eq)]
enum Terminal {
    None,
    Optional,
    Matches,
    OrGiveUp,
    OrAlwaysParse(bool),
    ErrIntoWrapped,
    // continue on the plain Result with the ResultExt methods
    ResAndAlso { mutate: bool, ok: bool },
    ResAndDo { mutate: bool },
    ResErrInto,
}

#[derive(Clone, Debug, PartialEq, Eq)]
struct Call {
    site: usize,
    arg: Option<i64>,
}

#[derive(Debug, PartialEq, Eq, Clone)]
struct Wrapped(i64);
impl From<i64> for Wrapped {
    fn from(e: i64) -> Self {
        Wrapped(e + 100_000)
    }
}

#[derive(Clone, Debug, PartialEq, Eq)]
enum Final {
    Parsed(V),
    Res(Result<i64, i64>),
    ResOpt(Result<Option<i64>, i64>),
    ResBool(Result<bool, i64>),
    ParsedWrapped(Result<i64, i64>, bool), // (value or wrapped error payload, is_fallthrough)
    ResWrapped(Result<i64, i64>),
}

fn tag(site: usize, c: i64) -> i64 {
    1000 * (site as i64 + 1) + c
}

fn g(site: usize, v: i64) -> i64 {
    v * 7 + tag(site, 3)
}

fn to_v(p: &P) -> V {
    match p {
        Fallthrough => V::F,
        Res(Ok(v)) => V::Ok(*v),
        Res(Err(e)) => V::Err(*e),
    }
}

fn from_v(v: &V) -> P {
    match v {
        V::F => Fallthrough,
        V::Ok(v) => Res(Ok(*v)),
        V::Err(e) => Res(Err(*e)),
    }
}

// ---------------------------------------------------------------- real execution

fn real_step(cur: P, site: usize, ins: &Instr, calls: &mut Vec<Call>) -> P {
    match ins {
        Instr::OrParse(alt) => cur.or_parse(|| {
            calls.push(Call { site, arg: None });
            match alt {
                Alt3::F => Fallthrough,
                Alt3::Ok => Res(Ok(tag(site, 1))),
                Alt3::Err => Res(Err(tag(site, 2))),
            }
        }),
        Instr::OrAlwaysParse(ok) => cur
            .or_always_parse(|| {
                calls.push(Call { site, arg: None });
                if *ok {
                    Ok(tag(site, 1))
                } else {
                    Err(tag(site, 2))
                }
            })
            .into(),
        Instr::OrGiveUpFrom => cur
            .or_give_up(|| {
                calls.push(Call { site, arg: None });
                tag(site, 2)
            })
            .into(),
        Instr::AndThen(ok) => cur.and_then(|v| {
            calls.push(Call { site, arg: Some(v) });
            if *ok {
                Ok(g(site, v))
            } else {
                Err(tag(site, 2))
            }
        }),
        Instr::AndAlso { mutate, ok } => cur.and_also(|v| {
            calls.push(Call { site, arg: Some(*v) });
            if *mutate {
                *v = g(site, *v);
            }
            if *ok {
                Ok(())
            } else {
                Err(tag(site, 2))
            }
        }),
        Instr::AndDo { mutate } => cur.and_do(|v| {
            calls.push(Call { site, arg: Some(*v) });
            if *mutate {
                *v = g(site, *v);
            }
        }),
        Instr::Map => cur.map(|v| {
            calls.push(Call { site, arg: Some(v) });
            g(site, v)
        }),
        Instr::MapErr => cur.map_err(|e| {
            calls.push(Call { site, arg: Some(e) });
            g(site, e)
        }),
        Instr::ErrIntoSame => cur.err_into::<i64>(),
        Instr::FromResultRoundTrip => match cur {
            Fallthrough => Fallthrough,
            Res(r) => Parsed::from(r),
        },
    }
}

fn real_terminal(cur: P, site: usize, t: &Terminal, calls: &mut Vec<Call>) -> Final {
    match t {
        Terminal::None => Final::Parsed(to_v(&cur)),
        Terminal::Optional => Final::ResOpt(cur.optional()),
        Terminal::Matches => Final::ResBool(cur.matches()),
        Terminal::OrGiveUp => Final::Res(cur.or_give_up(|| {
            calls.push(Call { site, arg: None });
            tag(site, 2)
        })),
        Terminal::OrAlwaysParse(ok) => Final::Res(cur.or_always_parse(|| {
            calls.push(Call { site, arg: None });
            if *ok {
                Ok(tag(site, 1))
            } else {
                Err(tag(site, 2))
            }
        })),
        Terminal::ErrIntoWrapped => {
            let p: Parsed<i64, Wrapped> = cur.err_into();
            match p {
                Fallthrough => Final::ParsedWrapped(Ok(0), true),
                Res(Ok(v)) => Final::ParsedWrapped(Ok(v), false),
                Res(Err(Wrapped(e))) => Final::ParsedWrapped(Err(e), false),
            }
        }
        Terminal::ResAndAlso { mutate, ok } => {
            let r: R = cur.or_give_up(|| {
                calls.push(Call { site, arg: None });
                tag(site, 4)
            });
            Final::Res(ResultExt::and_also(r, |v| {
                calls.push(Call { site: site + 1, arg: Some(*v) });
                if *mutate {
                    *v = g(site + 1, *v);
                }
                if *ok {
                    Ok(())
                } else {
                    Err(tag(site + 1, 2))
                }
            }))
        }
        Terminal::ResAndDo { mutate } => {
            let r: R = cur.or_give_up(|| {
                calls.push(Call { site, arg: None });
                tag(site, 4)
            });
            Final::Res(ResultExt::and_do(r, |v| {
                calls.push(Call { site: site + 1, arg: Some(*v) });
                if *mutate {
                    *v = g(site + 1, *v);
                }
            }))
        }
        Terminal::ResErrInto => {
            let r: R = cur.or_give_up(|| {
                calls.push(Call { site, arg: None });
                tag(site, 4)
            });
            let r2: Result<i64, Wrapped> = ResultExt::err_into(r);
            Final::ResWrapped(r2.map_err(|w| w.0))
        }
    }
}

// ---------------------------------------------------------------- reference interpreter
// Written from the documentation of `Parsed`: an alternative runs iff the previous result was a
// fallthrough; a continuation runs iff the previous result was a success and its failure is
// committed; maps touch only the case they name.

fn ref_step(cur: &V, site: usize, ins: &Instr, calls: &mut Vec<Call>) -> V {
    match ins {
        Instr::OrParse(alt) => match cur {
            V::F => {
                calls.push(Call { site, arg: None });
                match alt {
                    Alt3::F => V::F,
                    Alt3::Ok => V::Ok(tag(site, 1)),
                    Alt3::Err => V::Err(tag(site, 2)),
                }
            }
            other => other.clone(),
        },
        Instr::OrAlwaysParse(ok) => match cur {
            V::F => {
                calls.push(Call { site, arg: None });
                if *ok {
                    V::Ok(tag(site, 1))
                } else {
                    V::Err(tag(site, 2))
                }
            }
            other => other.clone(),
        },
        Instr::OrGiveUpFrom => match cur {
            V::F => {
                calls.push(Call { site, arg: None });
                V::Err(tag(site, 2))
            }
            other => other.clone(),
        },
        Instr::AndThen(ok) => match cur {
            V::Ok(v) => {
                calls.push(Call { site, arg: Some(*v) });
                if *ok {
                    V::Ok(g(site, *v))
                } else {
                    V::Err(tag(site, 2))
                }
            }
            other => other.clone(),
        },
        Instr::AndAlso { mutate, ok } => match cur {
            V::Ok(v) => {
                calls.push(Call { site, arg: Some(*v) });
                if !*ok {
                    V::Err(tag(site, 2))
                } else if *mutate {
                    V::Ok(g(site, *v))
                } else {
                    V::Ok(*v)
                }
            }
            other => other.clone(),
        },
        Instr::AndDo { mutate } => match cur {
            V::Ok(v) => {
                calls.push(Call { site, arg: Some(*v) });
                if *mutate {
                    V::Ok(g(site, *v))
                } else {
                    V::Ok(*v)
                }
            }
            other => other.clone(),
        },
        Instr::Map => match cur {
            V::Ok(v) => {
                calls.push(Call { site, arg: Some(*v) });
                V::Ok(g(site, *v))
            }
            other => other.clone(),
        },
        Instr::MapErr => match cur {
            V::Err(e) => {
                calls.push(Call { site, arg: Some(*e) });
                V::Err(g(site, *e))
            }
            other => other.clone(),
        },
        Instr::ErrIntoSame | Instr::FromResultRoundTrip => cur.clone(),
    }
}

fn ref_give_up(cur: &V, site: usize, c: i64, calls: &mut Vec<Call>) -> Result<i64, i64> {
    match cur {
        V::F => {
            calls.push(Call { site, arg: None });
            Err(tag(site, c))
        }
        V::Ok(v) => Ok(*v),
        V::Err(e) => Err(*e),
    }
}

fn ref_terminal(cur: &V, site: usize, t: &Terminal, calls: &mut Vec<Call>) -> Final {
    match t {
        Terminal::None => Final::Parsed(cur.clone()),
        Terminal::Optional => Final::ResOpt(match cur {
            V::F => Ok(None),
            V::Ok(v) => Ok(Some(*v)),
            V::Err(e) => Err(*e),
        }),
        Terminal::Matches => Final::ResBool(match cur {
            V::F => Ok(false),
            V::Ok(_) => Ok(true),
            V::Err(e) => Err(*e),
        }),
        Terminal::OrGiveUp => Final::Res(ref_give_up(cur, site, 2, calls)),
        Terminal::OrAlwaysParse(ok) => Final::Res(match cur {
            V::F => {
                calls.push(Call { site, arg: None });
                if *ok {
                    Ok(tag(site, 1))
                } else {
                    Err(tag(site, 2))
                }
            }
            V::Ok(v) => Ok(*v),
            V::Err(e) => Err(*e),
        }),
        Terminal::ErrIntoWrapped => match cur {
            V::F => Final::ParsedWrapped(Ok(0), true),
            V::Ok(v) => Final::ParsedWrapped(Ok(*v), false),
            V::Err(e) => Final::ParsedWrapped(Err(*e + 100_000), false),
        },
        Terminal::ResAndAlso { mutate, ok } => {
            let r = ref_give_up(cur, site, 4, calls);
            Final::Res(match r {
                Ok(v) => {
                    calls.push(Call { site: site + 1, arg: Some(v) });
                    if !*ok {
                        Err(tag(site + 1, 2))
                    } else if *mutate {
                        Ok(g(site + 1, v))
                    } else {
                        Ok(v)
                    }
                }
                Err(e) => Err(e),
            })
        }
        Terminal::ResAndDo { mutate } => {
            let r = ref_give_up(cur, site, 4, calls);
            Final::Res(match r {
                Ok(v) => {
                    calls.push(Call { site: site + 1, arg: Some(v) });
                    if *mutate {
                        Ok(g(site + 1, v))
                    } else {
                        Ok(v)
                    }
                }
                Err(e) => Err(e),
            })
        }
        Terminal::ResErrInto => {
            let r = ref_give_up(cur, site, 4, calls);
            Final::ResWrapped(r.map_err(|e| e + 100_000))
        }
    }
}

// ---------------------------------------------------------------- enumeration

fn all_instrs() -> Vec<Instr> {
    let mut v = vec![
        Instr::OrParse(Alt3::F),
        Instr::OrParse(Alt3::Ok),
        Instr::OrParse(Alt3::Err),
        Instr::OrAlwaysParse(true),
        Instr::OrAlwaysParse(false),
        Instr::OrGiveUpFrom,
        Instr::AndThen(true),
        Instr::AndThen(false),
    ];
    for mutate in [false, true] {
        for ok in [true, false] {
            v.push(Instr::AndAlso { mutate, ok });
        }
        v.push(Instr::AndDo { mutate });
    }
    v.extend([Instr::Map, Instr::MapErr, Instr::ErrIntoSame, Instr::FromResultRoundTrip]);
    v
}

fn all_terminals() -> Vec<Terminal> {
    let mut v = vec![
        Terminal::None,
        Terminal::Optional,
        Terminal::Matches,
        Terminal::OrGiveUp,
        Terminal::OrAlwaysParse(true),
        Terminal::OrAlwaysParse(false),
        Terminal::ErrIntoWrapped,
        Terminal::ResErrInto,
    ];
    for mutate in [false, true] {
        for ok in [true, false] {
            v.push(Terminal::ResAndAlso { mutate, ok });
        }
        v.push(Terminal::ResAndDo { mutate });
    }
    v
}

fn run_program(init: &V, prog: &[Instr], term: &Terminal) -> (Final, Vec<Call>, Final, Vec<Call>, Option<String>) {
    let mut real_calls = Vec::new();
    let mut ref_calls = Vec::new();
    let mut real = from_v(init);
    let mut reference = init.clone();
    let mut panic = None;
    let res = mc_core::subject::catch(|| {
        for (site, ins) in prog.iter().enumerate() {
            real = real_step(real, site, ins, &mut real_calls);
        }
        real_terminal(real, prog.len(), term, &mut real_calls)
    });
    for (site, ins) in prog.iter().enumerate() {
        reference = ref_step(&reference, site, ins, &mut ref_calls);
    }
    let ref_final = ref_terminal(&reference, prog.len(), term, &mut ref_calls);
    let real_final = match res {
        Ok(f) => f,
        Err((msg, loc)) => {
            panic = Some(format!("{msg} @ {loc}"));
            Final::Parsed(V::F)
        }
    };
    (real_final, real_calls, ref_final, ref_calls, panic)
}

fn describe(init: &V, prog: &[Instr], term: &Terminal) -> Value {
    json!({"init": format!("{init:?}"), "program": prog.iter().map(|i| format!("{i:?}")).collect::<Vec<_>>(), "terminal": format!("{term:?}")})
}

fn key_of(prog: &[Instr], term: &Terminal, bad_site: usize) -> String {
    // the finding key names the combinator at which real and reference first part ways
    let name = if bad_site < prog.len() { format!("{:?}", prog[bad_site]) } else { format!("{term:?}") };
    let name: String = name.chars().take_while(|c| c.is_alphanumeric()).collect();
    format!("combinator/{name}")
}

pub fn check_one(init: &V, prog: &[Instr], term: &Terminal, report: &mut Report) {
    let (real_final, real_calls, ref_final, ref_calls, panic) = run_program(init, prog, term);
    report.evaluations += 1;
    report.transitions += prog.len() as u64 + 1;
    if !real_calls.is_empty() {
        report.nontrivial += 1;
    }
    report.outcome(format!("{real_final:?}/{}", real_calls.len()));
    if panic.is_some() || real_final != ref_final || real_calls != ref_calls {
        // find first diverging site by running prefixes
        let mut bad = prog.len();
        for n in 0..=prog.len() {
            let (rf, rc, ef, ec, p) = run_program(init, &prog[..n], &Terminal::None);
            if p.is_some() || rf != ef || rc != ec {
                bad = n - 1;
                break;
            }
        }
        let what = format!(
            "program {:?} then {:?} on {:?}: real {:?} calls {:?}{}; reference {:?} calls {:?}",
            prog,
            term,
            init,
            real_final,
            real_calls,
            panic.map(|p| format!(" PANIC {p}")).unwrap_or_default(),
            ref_final,
            ref_calls
        );
        let mut replay = describe(init, prog, term);
        replay["property"] = json!("C15");
        replay["index"] = json!(index_of(init, prog, term));
        report.violation(key_of(prog, term, bad), what, replay, prog.len() as u64);
    }
}

fn inits() -> Vec<V> {
    vec![V::F, V::Ok(7), V::Err(9)]
}

fn index_of(init: &V, prog: &[Instr], term: &Terminal) -> Vec<usize> {
    let ins = all_instrs();
    let ts = all_terminals();
    let mut v = vec![inits().iter().position(|i| i == init).unwrap()];
    v.push(ts.iter().position(|t| t == term).unwrap());
    for p in prog {
        v.push(ins.iter().position(|i| i == p).unwrap());
    }
    v
}

thread_local! {
    /// invocation counter for closures that capture nothing (function items are zero sized)
    static CALLS: std::cell::Cell<u32> = const { std::cell::Cell::new(0) };
}
fn bump() {
    CALLS.with(|c| c.set(c.get() + 1));
}
fn calls_and_reset() -> u32 {
    CALLS.with(|c| c.replace(0))
}

/// The same table driven with ZERO SIZED callables (function items and non-capturing closures) and
/// with payload / error types of any size: neither the size of the closure nor the size of the
/// `Parsed` value may matter.
fn fn_item_steps<T: Clone + PartialEq + std::fmt::Debug + Default>(tname: &str, report: &mut Report) {
    fn alt_f<T>() -> Parsed<T, i64> {
        bump();
        Fallthrough
    }
    fn alt_ok<T: Default>() -> Parsed<T, i64> {
        bump();
        Res(Ok(T::default()))
    }
    fn alt_err<T>() -> Parsed<T, i64> {
        bump();
        Res(Err(9))
    }
    fn always_ok<T: Default>() -> Result<T, i64> {
        bump();
        Ok(T::default())
    }
    fn always_err<T>() -> Result<T, i64> {
        bump();
        Err(9)
    }
    fn give_up() -> i64 {
        bump();
        5
    }
    fn then_ok<T>(v: T) -> Result<T, i64> {
        bump();
        Ok(v)
    }
    fn then_err<T>(_v: T) -> Result<T, i64> {
        bump();
        Err(9)
    }
    fn also_ok<T>(_v: &mut T) -> Result<(), i64> {
        bump();
        Ok(())
    }
    fn also_err<T>(_v: &mut T) -> Result<(), i64> {
        bump();
        Err(9)
    }
    fn do_it<T>(_v: &mut T) {
        bump();
    }
    fn id<T>(v: T) -> T {
        bump();
        v
    }
    fn inc(e: i64) -> i64 {
        bump();
        e + 1
    }
    let mut check = |what: String, ok: bool, detail: String| {
        report.evaluations += 1;
        report.transitions += 1;
        report.nontrivial += 1;
        if !ok {
            report.violation(format!("combinator/zero-sized-callable-{tname}"), format!("payload type {tname}, zero sized callables: {what}: {detail}"), json!({"property": "C15", "payload": tname, "what": what}), 1);
        }
    };
    #[derive(Clone, Debug, PartialEq)]
    enum C<T> {
        F,
        Ok(T),
        Err(i64),
    }
    fn to_p<T: Clone>(c: &C<T>) -> Parsed<T, i64> {
        match c {
            C::F => Fallthrough,
            C::Ok(v) => Res(Ok(v.clone())),
            C::Err(e) => Res(Err(*e)),
        }
    }
    fn of_p<T>(p: Parsed<T, i64>) -> C<T> {
        match p {
            Fallthrough => C::F,
            Res(Ok(v)) => C::Ok(v),
            Res(Err(e)) => C::Err(e),
        }
    }
    let cases: Vec<C<T>> = vec![C::F, C::Ok(T::default()), C::Err(7)];
    for init in &cases {
        let is_ok = matches!(init, C::Ok(_));
        let is_f = matches!(init, C::F);
        let is_err = matches!(init, C::Err(_));
        calls_and_reset();
        let got = of_p(to_p(init).or_parse(alt_f::<T>));
        let n = calls_and_reset();
        check(format!("{init:?}.or_parse(fn -> F)"), got == *init && n == is_f as u32, format!("got {got:?} with {n} call(s)"));
        let got = of_p(to_p(init).or_parse(alt_ok::<T>));
        let n = calls_and_reset();
        check(format!("{init:?}.or_parse(fn -> Ok)"), got == if is_f { C::Ok(T::default()) } else { init.clone() } && n == is_f as u32, format!("got {got:?} with {n} call(s)"));
        let got = of_p(to_p(init).or_parse(alt_err::<T>));
        let n = calls_and_reset();
        check(format!("{init:?}.or_parse(fn -> Err)"), got == if is_f { C::Err(9) } else { init.clone() } && n == is_f as u32, format!("got {got:?} with {n} call(s)"));
        let as_result = |c: &C<T>, fallthrough: Result<T, i64>| match c {
            C::F => fallthrough,
            C::Ok(v) => Ok(v.clone()),
            C::Err(e) => Err(*e),
        };
        let got = to_p(init).or_always_parse(always_ok::<T>);
        let n = calls_and_reset();
        check(format!("{init:?}.or_always_parse(fn -> Ok)"), got == as_result(init, Ok(T::default())) && n == is_f as u32, format!("got {got:?} with {n} call(s)"));
        let got = to_p(init).or_always_parse(always_err::<T>);
        let n = calls_and_reset();
        check(format!("{init:?}.or_always_parse(fn -> Err)"), got == as_result(init, Err(9)) && n == is_f as u32, format!("got {got:?} with {n} call(s)"));
        let got = to_p(init).or_give_up(give_up);
        let n = calls_and_reset();
        check(format!("{init:?}.or_give_up(fn)"), got == as_result(init, Err(5)) && n == is_f as u32, format!("got {got:?} with {n} call(s)"));
        let got = of_p(to_p(init).and_then(then_ok::<T>));
        let n = calls_and_reset();
        check(format!("{init:?}.and_then(fn -> Ok)"), got == *init && n == is_ok as u32, format!("got {got:?} with {n} call(s)"));
        let got = of_p(to_p(init).and_then(then_err::<T>));
        let n = calls_and_reset();
        check(format!("{init:?}.and_then(fn -> Err)"), got == if is_ok { C::Err(9) } else { init.clone() } && n == is_ok as u32, format!("got {got:?} with {n} call(s)"));
        let got = of_p(to_p(init).and_also(also_ok::<T>));
        let n = calls_and_reset();
        check(format!("{init:?}.and_also(fn -> Ok)"), got == *init && n == is_ok as u32, format!("got {got:?} with {n} call(s)"));
        let got = of_p(to_p(init).and_also(also_err::<T>));
        let n = calls_and_reset();
        check(format!("{init:?}.and_also(fn -> Err)"), got == if is_ok { C::Err(9) } else { init.clone() } && n == is_ok as u32, format!("got {got:?} with {n} call(s)"));
        let got = of_p(to_p(init).and_do(do_it::<T>));
        let n = calls_and_reset();
        check(format!("{init:?}.and_do(fn)"), got == *init && n == is_ok as u32, format!("got {got:?} with {n} call(s)"));
        let got = of_p(to_p(init).map(id::<T>));
        let n = calls_and_reset();
        check(format!("{init:?}.map(fn)"), got == *init && n == is_ok as u32, format!("got {got:?} with {n} call(s)"));
        let got = of_p(to_p(init).map_err(inc));
        let n = calls_and_reset();
        check(format!("{init:?}.map_err(fn)"), got == if let C::Err(e) = init { C::Err(e + 1) } else { init.clone() } && n == is_err as u32, format!("got {got:?} with {n} call(s)"));
        if !is_f {
            let r: Result<T, i64> = as_result(init, Err(0));
            let got = ResultExt::and_also(r.clone(), also_ok::<T>);
            let n = calls_and_reset();
            check(format!("Result {r:?}.and_also(fn -> Ok)"), got == r && n == is_ok as u32, format!("got {got:?} with {n} call(s)"));
            let got = ResultExt::and_do(r.clone(), do_it::<T>);
            let n = calls_and_reset();
            check(format!("Result {r:?}.and_do(fn)"), got == r && n == is_ok as u32, format!("got {got:?} with {n} call(s)"));
        }
    }
}

/// The alternatives / continuations as closures that capture a large value by move (the size of the
/// callable must not matter either), for one payload type.
fn big_closure_steps(report: &mut Report) {
    use std::cell::Cell;
    let big = [7u64; 24]; // 192 bytes, captured by value below
    let mut check = |what: String, ok: bool, detail: String| {
        report.evaluations += 1;
        report.transitions += 1;
        report.nontrivial += 1;
        if !ok {
            report.violation("combinator/large-callable".to_string(), format!("callables capturing 192 bytes: {what}: {detail}"), json!({"property": "C15", "payload": "large-callable", "what": what}), 1);
        }
    };
    let cases: Vec<P> = vec![Fallthrough, Res(Ok(3)), Res(Err(7))];
    let show = |p: &P| match p {
        Fallthrough => "F".to_string(),
        Res(Ok(v)) => format!("Ok({v})"),
        Res(Err(e)) => format!("Err({e})"),
    };
    let same = |a: &P, b: &P| show(a) == show(b);
    let clone = |p: &P| -> P {
        match p {
            Fallthrough => Fallthrough,
            Res(Ok(v)) => Res(Ok(*v)),
            Res(Err(e)) => Res(Err(*e)),
        }
    };
    for init in &cases {
        let (is_f, is_ok, is_err) = (matches!(init, Fallthrough), matches!(init, Res(Ok(_))), matches!(init, Res(Err(_))));
        let n = Cell::new(0u32);
        let nr = &n;
        let got = clone(init).or_parse(move || {
            nr.set(nr.get() + 1);
            Res(Ok(big[3] as i64))
        });
        let want: P = if is_f { Res(Ok(7)) } else { clone(init) };
        check(format!("{}.or_parse(large closure)", show(init)), same(&got, &want), format!("got {}", show(&got)));
        let n = Cell::new(0u32);
        let nr = &n;
        let got = clone(init).or_parse(move || {
            nr.set(nr.get() + big.len() as u32);
            Res(Err(9))
        });
        check(format!("{}.or_parse(large closure -> Err)", show(init)), same(&got, &if is_f { Res(Err(9)) } else { clone(init) }) && (n.get() > 0) == is_f, format!("got {} with {} call(s)", show(&got), n.get() / 24));
        let n = Cell::new(0u32);
        let nr = &n;
        let got = clone(init).or_always_parse(move || {
            nr.set(nr.get() + big.len() as u32);
            Err(9)
        });
        let want: R = match init {
            Fallthrough => Err(9),
            Res(r) => *r,
        };
        check(format!("{}.or_always_parse(large closure)", show(init)), got == want && (n.get() > 0) == is_f, format!("got {got:?}"));
        let n = Cell::new(0u32);
        let nr = &n;
        let got = clone(init).or_give_up(move || {
            nr.set(nr.get() + 1);
            big[1] as i64
        });
        let want: R = match init {
            Fallthrough => Err(7),
            Res(r) => *r,
        };
        check(format!("{}.or_give_up(large closure)", show(init)), got == want && (n.get() > 0) == is_f, format!("got {got:?}"));
        let n = Cell::new(0u32);
        let nr = &n;
        let got = clone(init).and_then(move |v| {
            nr.set(nr.get() + 1);
            if big[0] == 7 { Err(v + 6) } else { Ok(v) }
        });
        check(format!("{}.and_then(large closure -> Err)", show(init)), same(&got, &if is_ok { Res(Err(9)) } else { clone(init) }) && (n.get() > 0) == is_ok, format!("got {}", show(&got)));
        let n = Cell::new(0u32);
        let nr = &n;
        let got = clone(init).and_also(move |_v| {
            nr.set(nr.get() + 1);
            if big[0] == 7 { Err(9) } else { Ok(()) }
        });
        check(format!("{}.and_also(large closure -> Err)", show(init)), same(&got, &if is_ok { Res(Err(9)) } else { clone(init) }) && (n.get() > 0) == is_ok, format!("got {}", show(&got)));
        let n = Cell::new(0u32);
        let nr = &n;
        let got = clone(init).and_do(move |v| {
            nr.set(nr.get() + 1);
            *v += big[2] as i64;
        });
        check(format!("{}.and_do(large closure)", show(init)), same(&got, &if is_ok { Res(Ok(10)) } else { clone(init) }) && (n.get() > 0) == is_ok, format!("got {}", show(&got)));
        let n = Cell::new(0u32);
        let nr = &n;
        let got = clone(init).map(move |v| {
            nr.set(nr.get() + 1);
            v + big[2] as i64
        });
        check(format!("{}.map(large closure)", show(init)), same(&got, &if is_ok { Res(Ok(10)) } else { clone(init) }) && (n.get() > 0) == is_ok, format!("got {}", show(&got)));
        let n = Cell::new(0u32);
        let nr = &n;
        let got = clone(init).map_err(move |e| {
            nr.set(nr.get() + 1);
            e + big[2] as i64
        });
        check(format!("{}.map_err(large closure)", show(init)), same(&got, &if is_err { Res(Err(14)) } else { clone(init) }) && (n.get() > 0) == is_err, format!("got {}", show(&got)));
    }
}

/// Runs a table while the thread is unwinding from an unrelated panic (inside a `Drop`): the
/// combinators must behave the same (`std::thread::panicking()` is true there).
fn tables_while_unwinding(report: &mut Report) {
    struct InDrop<'a>(&'a std::cell::RefCell<Report>);
    impl Drop for InDrop<'_> {
        fn drop(&mut self) {
            let mut r = self.0.borrow_mut();
            single_steps::<u8>(&|| 200u8, "u8-while-unwinding", &mut r);
            fn_item_steps::<String>("String-while-unwinding", &mut r);
            big_closure_steps(&mut r);
        }
    }
    let cell = std::cell::RefCell::new(Report::new());
    let _ = std::panic::catch_unwind(std::panic::AssertUnwindSafe(|| {
        let _g = InDrop(&cell);
        panic!("unrelated panic (harness)");
    }));
    report.merge(cell.into_inner());
}

/// Single-step table for an arbitrary payload type (the combinators are generic: the payload type -
/// zero sized, one byte, heap allocated - must not matter): every method once per input case and
/// closure outcome, with invocation counts.
fn single_steps<T: Clone + PartialEq + std::fmt::Debug>(mk: &dyn Fn() -> T, tname: &str, report: &mut Report) {
    single_steps_e::<T, i64>(mk, tname, report)
}

/// Error types of the single-step table: the error type (zero sized, one byte, heap allocated, large)
/// is as much a hidden dimension of the generic combinators as the payload type.
trait ErrT: Clone + PartialEq + std::fmt::Debug {
    const NAME: &'static str;
    fn mk(c: i64) -> Self;
    fn bump(&self) -> Self;
}
impl ErrT for i64 {
    const NAME: &'static str = "";
    fn mk(c: i64) -> Self { c }
    fn bump(&self) -> Self { self + 1 }
}
impl ErrT for () {
    const NAME: &'static str = "/err-unit";
    fn mk(_: i64) -> Self {}
    fn bump(&self) -> Self {}
}
#[derive(Clone, PartialEq, Debug)]
struct UnitErr;
impl ErrT for UnitErr {
    const NAME: &'static str = "/err-unit-struct";
    fn mk(_: i64) -> Self { UnitErr }
    fn bump(&self) -> Self { UnitErr }
}
#[derive(Clone, PartialEq, Debug)]
enum OneErr { Only }
impl ErrT for OneErr {
    const NAME: &'static str = "/err-one-variant-enum";
    fn mk(_: i64) -> Self { OneErr::Only }
    fn bump(&self) -> Self { OneErr::Only }
}
impl ErrT for u8 {
    const NAME: &'static str = "/err-u8";
    fn mk(c: i64) -> Self { c as u8 }
    fn bump(&self) -> Self { self.wrapping_add(1) }
}
impl ErrT for String {
    const NAME: &'static str = "/err-String";
    fn mk(c: i64) -> Self { format!("error {c}") }
    fn bump(&self) -> Self { format!("{self}+") }
}
impl ErrT for [u64; 40] {
    const NAME: &'static str = "/err-320-bytes";
    fn mk(c: i64) -> Self { [c as u64; 40] }
    fn bump(&self) -> Self { let mut x = *self; x[39] += 1; x }
}
impl ErrT for Box<i64> {
    const NAME: &'static str = "/err-Box";
    fn mk(c: i64) -> Self { Box::new(c) }
    fn bump(&self) -> Self { Box::new(**self + 1) }
}

fn single_steps_e<T: Clone + PartialEq + std::fmt::Debug, E: ErrT>(mk: &dyn Fn() -> T, tname: &str, report: &mut Report) {
    let tname = &format!("{tname}{}", E::NAME);
    use std::cell::Cell;
    #[derive(Clone, Debug, PartialEq)]
    enum C<T, E> {
        F,
        Ok(T),
        Err(E),
    }
    fn to_p<T: Clone, E: Clone>(c: &C<T, E>) -> Parsed<T, E> {
        match c {
            C::F => Fallthrough,
            C::Ok(v) => Res(Ok(v.clone())),
            C::Err(e) => Res(Err(e.clone())),
        }
    }
    fn of_p<T, E>(p: Parsed<T, E>) -> C<T, E> {
        match p {
            Fallthrough => C::F,
            Res(Ok(v)) => C::Ok(v),
            Res(Err(e)) => C::Err(e),
        }
    }
    let mut check = |what: String, ok: bool, detail: String| {
        report.evaluations += 1;
        report.transitions += 1;
        report.nontrivial += 1;
        if !ok {
            report.violation(format!("combinator/payload-{tname}"), format!("payload type {tname}: {what}: {detail}"), json!({"property": "C15", "payload": tname, "what": what}), 1);
        }
    };
    let cases: Vec<C<T, E>> = vec![C::F, C::Ok(mk()), C::Err(E::mk(7))];
    for init in &cases {
        let is_ok = matches!(init, C::Ok(_));
        let is_f = matches!(init, C::F);
        let is_err = matches!(init, C::Err(_));
        // or_parse with every alternative
        for alt in &cases {
            let n = Cell::new(0u32);
            let got = of_p(to_p(init).or_parse(|| {
                n.set(n.get() + 1);
                to_p(alt)
            }));
            let want = if is_f { alt.clone() } else { init.clone() };
            check(format!("{init:?}.or_parse(-> {alt:?})"), got == want && n.get() == is_f as u32, format!("got {got:?} with {} call(s)", n.get()));
        }
        for alt_ok in [true, false] {
            let n = Cell::new(0u32);
            let got = to_p(init).or_always_parse(|| {
                n.set(n.get() + 1);
                if alt_ok { Ok(mk()) } else { Err(E::mk(9)) }
            });
            let want: Result<T, E> = match init {
                C::F => if alt_ok { Ok(mk()) } else { Err(E::mk(9)) },
                C::Ok(v) => Ok(v.clone()),
                C::Err(e) => Err(e.clone()),
            };
            check(format!("{init:?}.or_always_parse(-> ok={alt_ok})"), got == want && n.get() == is_f as u32, format!("got {got:?} with {} call(s)", n.get()));
        }
        {
            let n = Cell::new(0u32);
            let got = to_p(init).or_give_up(|| {
                n.set(n.get() + 1);
                E::mk(5)
            });
            let want: Result<T, E> = match init {
                C::F => Err(E::mk(5)),
                C::Ok(v) => Ok(v.clone()),
                C::Err(e) => Err(e.clone()),
            };
            check(format!("{init:?}.or_give_up"), got == want && n.get() == is_f as u32, format!("got {got:?} with {} call(s)", n.get()));
        }
        {
            let got = to_p(init).optional();
            let want: Result<Option<T>, E> = match init {
                C::F => Ok(None),
                C::Ok(v) => Ok(Some(v.clone())),
                C::Err(e) => Err(e.clone()),
            };
            check(format!("{init:?}.optional"), got == want, format!("got {got:?}"));
            let got = to_p(init).matches();
            let want: Result<bool, E> = match init {
                C::F => Ok(false),
                C::Ok(_) => Ok(true),
                C::Err(e) => Err(e.clone()),
            };
            check(format!("{init:?}.matches"), got == want, format!("got {got:?}"));
        }
        for cont_ok in [true, false] {
            let n = Cell::new(0u32);
            let got = of_p(to_p(init).and_then(|v| {
                n.set(n.get() + 1);
                if cont_ok { Ok(v) } else { Err(E::mk(9)) }
            }));
            let want = if is_ok && !cont_ok { C::Err(E::mk(9)) } else { init.clone() };
            check(format!("{init:?}.and_then(-> ok={cont_ok})"), got == want && n.get() == is_ok as u32, format!("got {got:?} with {} call(s)", n.get()));
            let n = Cell::new(0u32);
            let got = of_p(to_p(init).and_also(|_v| {
                n.set(n.get() + 1);
                if cont_ok { Ok(()) } else { Err(E::mk(9)) }
            }));
            check(format!("{init:?}.and_also(-> ok={cont_ok})"), got == want && n.get() == is_ok as u32, format!("got {got:?} with {} call(s)", n.get()));
            // ResultExt on plain results
            if !is_f {
                let r: Result<T, E> = match init {
                    C::Ok(v) => Ok(v.clone()),
                    C::Err(e) => Err(e.clone()),
                    C::F => unreachable!(),
                };
                let n = Cell::new(0u32);
                let got = ResultExt::and_also(r.clone(), |_v| {
                    n.set(n.get() + 1);
                    if cont_ok { Ok(()) } else { Err(E::mk(9)) }
                });
                let want_r: Result<T, E> = if is_ok && !cont_ok { Err(E::mk(9)) } else { r.clone() };
                check(format!("Result {r:?}.and_also(-> ok={cont_ok})"), got == want_r && n.get() == is_ok as u32, format!("got {got:?} with {} call(s)", n.get()));
            }
        }
        {
            let n = Cell::new(0u32);
            let got = of_p(to_p(init).and_do(|_v| n.set(n.get() + 1)));
            check(format!("{init:?}.and_do"), got == *init && n.get() == is_ok as u32, format!("got {got:?} with {} call(s)", n.get()));
            let n = Cell::new(0u32);
            let got = of_p(to_p(init).map(|v| {
                n.set(n.get() + 1);
                v
            }));
            check(format!("{init:?}.map"), got == *init && n.get() == is_ok as u32, format!("got {got:?} with {} call(s)", n.get()));
            let n = Cell::new(0u32);
            let got = of_p(to_p(init).map_err(|e| {
                n.set(n.get() + 1);
                e.bump()
            }));
            let want = if let C::Err(e) = init { C::Err(e.bump()) } else { init.clone() };
            check(format!("{init:?}.map_err"), got == want && n.get() == is_err as u32, format!("got {got:?} with {} call(s)", n.get()));
            let got = of_p(to_p(init).err_into::<E>());
            check(format!("{init:?}.err_into"), got == *init, format!("got {got:?}"));
            let back = of_p(Parsed::from(match init {
                C::Ok(v) => Ok(v.clone()),
                C::Err(e) => Err(e.clone()),
                C::F => Err(E::mk(-1)),
            }));
            let want = if is_f { C::Err(E::mk(-1)) } else { init.clone() };
            check(format!("Parsed::from(result of {init:?})"), back == want, format!("got {back:?}"));
            if !is_f {
                let r: Result<T, E> = match init {
                    C::Ok(v) => Ok(v.clone()),
                    C::Err(e) => Err(e.clone()),
                    C::F => unreachable!(),
                };
                let n = Cell::new(0u32);
                let got = ResultExt::and_do(r.clone(), |_v| n.set(n.get() + 1));
                check(format!("Result {r:?}.and_do"), got == r && n.get() == is_ok as u32, format!("got {got:?} with {} call(s)", n.get()));
                let got: Result<T, E> = ResultExt::err_into(r.clone());
                check(format!("Result {r:?}.err_into"), got == r, format!("got {got:?}"));
            }
        }
    }
}

/// Every single-step table (payload types, error types, zero sized callables, large closures,
/// unwinding context); shared by the run and by replays.
fn all_tables(report: &mut Report) {
    // payload types: the combinators are generic, the payload's size or kind must not matter
    single_steps::<()>(&|| (), "unit", report);
    single_steps::<[u64; 0]>(&|| [], "empty-array", report);
    single_steps::<u8>(&|| 200u8, "u8", report);
    single_steps::<String>(&|| "payload".to_string(), "String", report);
    single_steps::<Vec<u128>>(&|| vec![1, 2, 3], "Vec", report);
    single_steps::<Option<Box<i64>>>(&|| None, "None", report);
    single_steps::<[u64; 32]>(&|| [7; 32], "256-bytes", report);
    single_steps::<[u128; 20]>(&|| [1; 20], "320-bytes", report);
    // error types: zero sized (unit, unit struct, one-variant enum), one byte, heap allocated, large
    single_steps_e::<u8, ()>(&|| 200u8, "u8", report);
    single_steps_e::<String, ()>(&|| "payload".to_string(), "String", report);
    single_steps_e::<(), ()>(&|| (), "unit", report);
    single_steps_e::<u8, UnitErr>(&|| 200u8, "u8", report);
    single_steps_e::<String, OneErr>(&|| "payload".to_string(), "String", report);
    single_steps_e::<u8, u8>(&|| 200u8, "u8", report);
    single_steps_e::<String, String>(&|| "payload".to_string(), "String", report);
    single_steps_e::<(), [u64; 40]>(&|| (), "unit", report);
    single_steps_e::<[u64; 32], [u64; 40]>(&|| [7; 32], "256-bytes", report);
    single_steps_e::<u8, Box<i64>>(&|| 200u8, "u8", report);
    report.completed.push("the single-step table also for the error types (), a unit struct, a one-variant enum, u8, String, Box<i64> and [u64; 40] (the error type is a hidden dimension like the payload type)".to_string());
    fn_item_steps::<()>("unit", report);
    fn_item_steps::<u8>("u8", report);
    fn_item_steps::<String>("String", report);
    fn_item_steps::<[u64; 32]>("256-bytes", report);
    big_closure_steps(report);
    tables_while_unwinding(report);
}

pub fn run(tier: Tier, report: &mut Report) {
    let ins = all_instrs();
    let ts = all_terminals();
    // the combinators are stateless, so longer chains add no new behaviour in principle; the
    // thorough tier goes two steps further anyway (state smuggled through a chain would show)
    let max_len = tier.pick(3, 5);
    let mut programs: Vec<Vec<usize>> = vec![vec![]];
    let mut level: Vec<Vec<usize>> = vec![vec![]];
    for _ in 0..max_len {
        let mut next = Vec::new();
        for p in &level {
            for i in 0..ins.len() {
                let mut q = p.clone();
                q.push(i);
                next.push(q);
            }
        }
        programs.extend(next.iter().cloned());
        level = next;
    }
    report.count("programs_without_init_and_terminal", programs.len() as u64);
    report.count("instruction_variants", ins.len() as u64);
    report.count("terminal_variants", ts.len() as u64);
    let threads = mc_core::threads();
    let n = programs.len();
    let total = mc_core::par::par_fold(
        n,
        threads,
        Report::new,
        |acc, i| {
            let prog: Vec<Instr> = programs[i].iter().map(|&k| ins[k].clone()).collect();
            for init in inits() {
                for t in &ts {
                    check_one(&init, &prog, t, acc);
                }
            }
        },
        |a, b| a.merge(b),
    );
    report.merge(total);
    report.states = report.evaluations;
    report.traces = report.evaluations;
    for (init, prog, t) in [
        (V::F, vec![Instr::OrParse(Alt3::F), Instr::OrParse(Alt3::Ok), Instr::AndAlso { mutate: true, ok: false }], Terminal::Matches),
        (V::Ok(7), vec![Instr::AndThen(false), Instr::OrParse(Alt3::Ok)], Terminal::Optional),
        (V::Err(9), vec![Instr::MapErr, Instr::OrGiveUpFrom, Instr::Map], Terminal::ResAndDo { mutate: true }),
    ] {
        let (real_final, real_calls, _, _, _) = run_program(&init, &prog, &t);
        let mut s = describe(&init, &prog, &t);
        s["real_result"] = json!(format!("{real_final:?}"));
        s["closure_calls"] = json!(format!("{real_calls:?}"));
        report.sample(s);
    }
    all_tables(report);
    report.completed.push("closures capturing 192 bytes by value as alternatives / continuations; the tables once more inside a Drop while the thread unwinds from an unrelated panic".to_string());
    report.completed.push("the same table with zero sized callables (function items, invocations counted through a thread local) for the payload types (), u8, String, [u64; 32]; payloads of 256 and 320 bytes in the closure-driven table".to_string());
    report.completed.push("single-step table of every method x input case x closure outcome for the payload types (), [u64; 0], u8, String, Vec<u128>, Option<Box<i64>>".to_string());
    report.completed.push(format!(
        "all programs of <= {max_len} combinators ({} instruction variants) x 3 initial cases x {} terminals",
        ins.len(),
        ts.len()
    ));
}

pub fn replay(v: &Value) -> (bool, String) {
    if v.get("payload").is_some() {
        let mut r = Report::new();
        all_tables(&mut r);
        let text: String = r.violations.values().map(|x| format!("  {}\n", x.what)).collect();
        return (r.violation_count > 0, format!("single-step table over the payload types: {} deviation(s)\n{text}", r.violation_count));
    }
    let idx: Vec<usize> = v["index"].as_array().unwrap().iter().map(|x| x.as_u64().unwrap() as usize).collect();
    let ins = all_instrs();
    let ts = all_terminals();
    let init = inits()[idx[0]].clone();
    let term = ts[idx[1]].clone();
    let prog: Vec<Instr> = idx[2..].iter().map(|&k| ins[k].clone()).collect();
    let (rf, rc, ef, ec, p) = run_program(&init, &prog, &term);
    let bad = p.is_some() || rf != ef || rc != ec;
    (bad, format!("program {prog:?} then {term:?} on {init:?}\n  real:      {rf:?} calls {rc:?} {p:?}\n  reference: {ef:?} calls {ec:?}"))
}

pub const RULE: &str = "every program = initial case (Fallthrough/Ok/Err) x up to 3 (quick) / 5 (thorough) type-preserving combinators (or_parse x3 alt outcomes, or_always_parse x2, or_give_up+From, and_then x2, and_also x4, and_do x2, map, map_err, err_into, From<Result>) x terminal (none, optional, matches, or_give_up, or_always_parse x2, err_into to a wrapping type, ResultExt::{and_also x4, and_do x2, err_into}); distinct by construction; non-trivial = at least one closure was invoked";

//! Decimal strings as arbitrary precision reference numbers (no shared code with flussab).

use std::cmp::Ordering;

/// Split an optionally signed decimal string into (negative, digits without leading zeros).
/// "-0" and "000" normalise to (false, "0").
pub fn normalize(s: &str) -> (bool, String) {
    let (neg, digits) = match s.strip_prefix('-') {
        Some(d) => (true, d),
        None => (false, s),
    };
    assert!(!digits.is_empty() && digits.bytes().all(|b| b.is_ascii_digit()), "not a decimal: {s:?}");
    let t = digits.trim_start_matches('0');
    if t.is_empty() {
        (false, "0".to_string())
    } else {
        (neg, t.to_string())
    }
}

fn cmp_mag(a: &str, b: &str) -> Ordering {
    a.len().cmp(&b.len()).then_with(|| a.cmp(b))
}

/// Compare two optionally signed decimal strings numerically.
pub fn cmp(a: &str, b: &str) -> Ordering {
    let (na, da) = normalize(a);
    let (nb, db) = normalize(b);
    match (na, nb) {
        (false, false) => cmp_mag(&da, &db),
        (true, true) => cmp_mag(&db, &da),
        (false, true) => Ordering::Greater,
        (true, false) => Ordering::Less,
    }
}

pub fn le(a: &str, b: &str) -> bool {
    cmp(a, b) != Ordering::Greater
}

pub fn in_range(v: &str, lo: &str, hi: &str) -> bool {
    le(lo, v) && le(v, hi)
}

pub fn eq(a: &str, b: &str) -> bool {
    cmp(a, b) == Ordering::Equal
}

/// Canonical rendering: no leading zeros, "-" only for non-zero negatives.
pub fn canon(s: &str) -> String {
    let (n, d) = normalize(s);
    if n {
        format!("-{d}")
    } else {
        d
    }
}

/// a + b for non-negative decimal strings.
pub fn add(a: &str, b: &str) -> String {
    let a = a.as_bytes();
    let b = b.as_bytes();
    let mut out = Vec::new();
    let mut carry = 0u8;
    let mut i = a.len();
    let mut j = b.len();
    while i > 0 || j > 0 || carry > 0 {
        let mut s = carry;
        if i > 0 {
            i -= 1;
            s += a[i] - b'0';
        }
        if j > 0 {
            j -= 1;
            s += b[j] - b'0';
        }
        out.push(b'0' + s % 10);
        carry = s / 10;
    }
    out.reverse();
    canon(std::str::from_utf8(&out).unwrap())
}

/// a - b for non-negative decimal strings with a >= b.
pub fn sub(a: &str, b: &str) -> String {
    assert!(le(b, a));
    let a = a.as_bytes();
    let b = b.as_bytes();
    let mut out = Vec::new();
    let mut borrow = 0i8;
    let mut j = b.len();
    for i in (0..a.len()).rev() {
        let mut d = (a[i] - b'0') as i8 - borrow;
        if j > 0 {
            j -= 1;
            d -= (b[j] - b'0') as i8;
        }
        if d < 0 {
            d += 10;
            borrow = 1;
        } else {
            borrow = 0;
        }
        out.push(b'0' + d as u8);
    }
    out.reverse();
    canon(std::str::from_utf8(&out).unwrap())
}

/// signed add of a small delta
pub fn add_small(a: &str, delta: i64) -> String {
    let (neg, mag) = normalize(a);
    let d = delta.unsigned_abs().to_string();
    let dneg = delta < 0;
    if neg == dneg {
        let m = add(&mag, &d);
        if neg && m != "0" {
            format!("-{m}")
        } else {
            m
        }
    } else if cmp_mag(&mag, &d) != Ordering::Less {
        let m = sub(&mag, &d);
        if neg && m != "0" {
            format!("-{m}")
        } else {
            m
        }
    } else {
        let m = sub(&d, &mag);
        if dneg && m != "0" {
            format!("-{m}")
        } else {
            m
        }
    }
}

pub fn mul_small(a: &str, k: u32) -> String {
    let (neg, mag) = normalize(a);
    let mut out = Vec::new();
    let mut carry = 0u64;
    for &c in mag.as_bytes().iter().rev() {
        let v = (c - b'0') as u64 * k as u64 + carry;
        out.push(b'0' + (v % 10) as u8);
        carry = v / 10;
    }
    while carry > 0 {
        out.push(b'0' + (carry % 10) as u8);
        carry /= 10;
    }
    out.reverse();
    let m = canon(std::str::from_utf8(&out).unwrap());
    if neg && m != "0" {
        format!("-{m}")
    } else {
        m
    }
}

pub fn pow10(k: usize) -> String {
    let mut s = String::from("1");
    for _ in 0..k {
        s.push('0');
    }
    s
}

pub fn pow2(k: u32) -> String {
    let mut s = String::from("1");
    for _ in 0..k {
        s = mul_small(&s, 2);
    }
    s
}

#[cfg(test)]
mod tests {
    use super::*;
    #[test]
    fn basics() {
        assert!(eq("-0", "0"));
        assert!(eq("007", "7"));
        assert_eq!(cmp("-5", "3"), Ordering::Less);
        assert_eq!(cmp("-5", "-30"), Ordering::Greater);
        assert_eq!(add("999", "1"), "1000");
        assert_eq!(sub("1000", "1"), "999");
        assert_eq!(add_small("-128", 1), "-127");
        assert_eq!(add_small("-1", 2), "1");
        assert_eq!(add_small("1", -2), "-1");
        assert_eq!(add_small("127", 1), "128");
        assert_eq!(mul_small("127", 10), "1270");
        assert_eq!(pow2(64), "18446744073709551616");
        assert_eq!(pow2(127), "170141183460469231731687303715884105728");
        assert!(in_range("-128", "-128", "127"));
        assert!(!in_range("128", "-128", "127"));
    }
}

//! Harness binary for the AIGER parsers (flussab-aiger).
mod c03;
mod c06;
mod c12;
mod catalogue;
mod flat;
mod gen;
mod refparse;
mod subjects;

use mc_core::generic::{self, C01Params, C04Params, Corruption};
use mc_core::report::{parse_cli, write_out, Report};
use mc_core::subject::Subject;
use mc_core::{Budget, Tier, Value};

#[global_allocator]
static ALLOC: mc_core::alloc::Counting = mc_core::alloc::Counting;

fn lits_for(tier: Tier) -> Vec<&'static str> {
    tier.pick(vec!["u32", "u8"], subjects::LITS.to_vec())
}

const FORMATS: [&str; 2] = ["aag", "aig"];

fn long_contexts(kind: &str) -> Vec<&'static [u8]> {
    if kind == "aag" {
        vec![b"", b"aag ", b"aag 1 1 0 1 0\n", b"aag 1 1 0 1 0\n2\n2\n", b"aag 1 1 0 1 0\n2\n2\ni0 ", b"aag 1 1 0 1 0\n2\n2\nc\n"]
    } else {
        vec![b"", b"aig ", b"aig 1 1 0 1 0\n", b"aig 1 1 0 1 0\n2\n", b"aig 1 1 0 1 0\n2\ni0 ", b"aig 1 1 0 1 0\n2\nc\n"]
    }
}

fn long_token_light(kind: &str) -> Vec<generic::Doc> {
    generic::long_token_docs(&long_contexts(kind)).into_iter().map(|d| generic::Doc::new(format!("~{}", d.name), d.bytes)).collect()
}

/// C10 stream cases for the AIGER streaming (section) API: every section as a long run of small
/// entries. A run of eight '#' in the prefix stands for the number of repetitions (the declared
/// section size), in the period for 10000000 + repetition index (literals that never repeat).
fn c10_cases() -> Vec<(Box<dyn Subject>, generic::StreamCase)> {
    let mut v: Vec<(Box<dyn Subject>, generic::StreamCase)> = Vec::new();
    let mut add = |subject: &str, lit: &str, label: &str, prefix: &[u8], period: &[u8], max_item: usize| {
        v.push((subjects::make(subject, lit), generic::StreamCase { label: label.into(), prefix: prefix.to_vec(), period: period.to_vec(), suffix: vec![], max_item }));
    };
    for lit in ["u32", "usize"] {
        add("aag-stream", lit, &format!("aag-outputs-{lit}"), b"aag 0 0 0 ######## 0\n", b"0\n", 8);
        add("aag-stream", lit, &format!("aag-inputs-{lit}"), b"aag 600000000 ######## 0 0 0\n", b"########0\n", 12);
        add("aag-stream", lit, &format!("aag-latches-{lit}"), b"aag 600000000 0 ######## 0 0\n", b"########0 1 0\n", 16);
        add("aag-stream", lit, &format!("aag-and-gates-{lit}"), b"aag 600000000 0 0 0 ########\n", b"########0 1 0\n", 16);
        add("aag-stream", lit, &format!("aag-bad-{lit}"), b"aag 0 0 0 0 0 ########\n", b"1\n", 8);
        add("aag-stream", lit, &format!("aag-justice-sizes-{lit}"), b"aag 0 0 0 0 0 0 0 ########\n", b"0\n", 8);
        add("aag-stream", lit, &format!("aag-fairness-{lit}"), b"aag 0 0 0 0 0 0 0 0 ########\n", b"0\n", 8);
        add("aag-stream", lit, &format!("aag-symbols-{lit}"), b"aag 1 1 0 0 0\n2\n", b"i0 name ########\n", 20);
        add("aig-stream", lit, &format!("aig-outputs-{lit}"), b"aig 0 0 0 ######## 0\n", b"0\n", 8);
        add("aig-stream", lit, &format!("aig-latches-{lit}"), b"aig 600000000 0 ######## 0 0\n", b"0 1\n", 8);
        // gate k = (gate k-1) & (gate k-1): deltas 2, 0
        add("aig-stream", lit, &format!("aig-and-gates-{lit}"), b"aig 600000000 0 0 0 ########\n", &[2u8, 0u8], 8);
        add("aig-stream", lit, &format!("aig-symbols-{lit}"), b"aig 1 1 0 0 0\n", b"i0 name ########\n", 20);
    }
    // the same long sections LEFT EARLY: every section skipped (asking for the next one at once), and
    // every section left after one entry - passing over the rest of a section must not buffer it
    for (how, subject) in [("skipped", "skip"), ("left-after-one-entry", "mixed20")] {
        add(&format!("aag-{subject}"), "u32", &format!("aag-outputs-{how}"), b"aag 0 0 0 ######## 0\n", b"0\n", 8);
        add(&format!("aag-{subject}"), "u32", &format!("aag-inputs-{how}"), b"aag 600000000 ######## 0 0 0\n", b"########0\n", 12);
        add(&format!("aag-{subject}"), "u32", &format!("aag-latches-{how}"), b"aag 600000000 0 ######## 0 0\n", b"########0 1 0\n", 16);
        add(&format!("aag-{subject}"), "u32", &format!("aag-and-gates-{how}"), b"aag 600000000 0 0 0 ########\n", b"########0 1 0\n", 16);
        add(&format!("aag-{subject}"), "u32", &format!("aag-justice-sizes-{how}"), b"aag 0 0 0 0 0 0 0 ########\n", b"0\n", 8);
        add(&format!("aag-{subject}"), "u32", &format!("aag-fairness-{how}"), b"aag 0 0 0 0 0 0 0 0 ########\n", b"0\n", 8);
        add(&format!("aag-{subject}"), "u32", &format!("aag-symbols-{how}"), b"aag 1 1 0 0 0\n2\n", b"i0 name ########\n", 20);
        add(&format!("aig-{subject}"), "u32", &format!("aig-outputs-{how}"), b"aig 0 0 0 ######## 0\n", b"0\n", 8);
        add(&format!("aig-{subject}"), "u32", &format!("aig-latches-{how}"), b"aig 600000000 0 ######## 0 0\n", b"0 1\n", 8);
        add(&format!("aig-{subject}"), "u32", &format!("aig-and-gates-{how}"), b"aig 600000000 0 0 0 ########\n", &[2u8, 0u8], 8);
        add(&format!("aig-{subject}"), "u32", &format!("aig-symbols-{how}"), b"aig 1 1 0 0 0\n", b"i0 name ########\n", 20);
    }
    v
}

/// Repetition family (C05): one construct repeated N times wherever the grammar loops (section
/// entries, symbols, comment lines, gates, justice sizes); see the cnf harness.
fn repetition_docs(kind: &str, n: usize) -> Vec<generic::Doc> {
    let mut v = Vec::new();
    let magic = if kind == "aag" { "aag" } else { "aig" };
    let one_input = if kind == "aag" { format!("{magic} 1 1 0 0 0\n2\n") } else { format!("{magic} 1 1 0 0 0\n") };
    // outputs / bad / constraints / fairness: N entries of the constant
    v.push(generic::repeat_doc(&format!("{kind}/outputs"), format!("{magic} 0 0 0 {n} 0\n").as_bytes(), b"0\n", n, b""));
    v.push(generic::repeat_doc(&format!("{kind}/bad"), format!("{magic} 0 0 0 0 0 {n}\n").as_bytes(), b"1\n", n, b""));
    v.push(generic::repeat_doc(&format!("{kind}/constraints"), format!("{magic} 0 0 0 0 0 0 {n}\n").as_bytes(), b"0\n", n, b""));
    v.push(generic::repeat_doc(&format!("{kind}/fairness"), format!("{magic} 0 0 0 0 0 0 0 0 {n}\n").as_bytes(), b"0\n", n, b""));
    // justice: N empty properties; one property of N literals
    v.push(generic::repeat_doc(&format!("{kind}/justice-empty"), format!("{magic} 0 0 0 0 0 0 0 {n}\n").as_bytes(), b"0\n", n, b""));
    v.push(generic::repeat_doc(&format!("{kind}/justice-long"), format!("{magic} 0 0 0 0 0 0 0 1\n{n}\n").as_bytes(), b"1\n", n, b""));
    // symbols, comment lines (also without a declared section: rejected, but after a long scan)
    v.push(generic::repeat_doc(&format!("{kind}/symbols"), one_input.as_bytes(), b"i0 name\n", n, b""));
    v.push(generic::repeat_doc(&format!("{kind}/comment-lines"), format!("{one_input}c\n").as_bytes(), b"x\n", n, b""));
    v.push(generic::repeat_doc(&format!("{kind}/blank-comment-lines"), format!("{one_input}c\n").as_bytes(), b"\n", n, b""));
    v.push(generic::repeat_doc(&format!("{kind}/surplus-lines"), one_input.as_bytes(), b"\n", n, b""));
    // latches and gates
    if kind == "aag" {
        v.push(generic::numbered_doc("aag/inputs", format!("aag {n} {n} 0 0 0\n").as_bytes(), n, &|k| format!("{}\n", 2 * (k + 1)), b""));
        v.push(generic::numbered_doc("aag/latches", format!("aag {n} 0 {n} 0 0\n").as_bytes(), n, &|k| format!("{} 0\n", 2 * (k + 1)), b""));
        v.push(generic::numbered_doc("aag/gates", format!("aag {n} 0 0 0 {n}\n").as_bytes(), n, &|k| format!("{} 0 1\n", 2 * (k + 1)), b""));
        v.push(generic::numbered_doc("aag/gate-chain", format!("aag {} 1 0 1 {n}\n2\n{}\n", n + 1, 2 * (n + 1)).as_bytes(), n, &|k| format!("{} {} 2\n", 2 * (k + 2), 2 * (k + 1)), b""));
    } else {
        v.push(generic::repeat_doc("aig/latches", format!("aig {n} 0 {n} 0 0\n").as_bytes(), b"0\n", n, b""));
        // every gate x = (x-2) & (x-2): deltas 2, 0
        v.push(generic::repeat_doc("aig/gate-chain", format!("aig {} 1 0 1 {n}\n{}\n", n + 1, 2 * (n + 1)).as_bytes(), &[2u8, 0u8], n, b""));
        v.push(generic::repeat_doc("aig/gates-of-constants", format!("aig {n} 0 0 0 {n}\n").as_bytes(), &[1u8, 0u8], n, b""));
    }
    v
}

fn main() {
    mc_core::subject::install_quiet_panic_hook();
    let cli = parse_cli();
    let t0 = std::time::Instant::now();
    if cli.cmd != "replay" && mc_core::isolate::worker_spec().is_none() {
        mc_core::abortguard::install(cli.out.clone(), &cli.cmd, "aiger", cli.tier.name());
    }
    let tier = cli.tier;
    if cli.cmd == "replay" {
        let text = std::fs::read_to_string(cli.file.as_ref().expect("replay needs a file")).unwrap();
        let v: Value = mc_core::serde_json::from_str(&text).unwrap();
        let v = if v.get("replay").is_some() { v["replay"].clone() } else { v };
        let prop = v["property"].as_str().unwrap_or("").to_string();
        if prop == "C06" || prop == "C03" || prop == "C12" {
            let (violated, text) = if prop == "C06" { c06::replay(&v) } else if prop == "C12" { c12::replay(&v) } else { c03::replay(&v) };
            println!("{text}");
            println!("{}", if violated { "REPLAY: property violated" } else { "REPLAY: property holds" });
            std::process::exit(if violated { 1 } else { 0 });
        }
        let subject = subjects::by_name(v["subject"].as_str().unwrap());
        let (violated, text) = match v["property"].as_str().unwrap_or("") {
            "C01" => generic::c01_replay(subject.as_ref(), &v),
            "C04" => generic::c04_replay(subject.as_ref(), &v),
            "C05" => generic::c05_replay(subject.as_ref(), &v),
            "C08" => generic::c08_replay(subject.as_ref(), &v),
            "C09" => generic::c09_replay(subject.as_ref(), &v),
            "C10" => {
                let cases = c10_cases();
                let (_, case) = cases.into_iter().find(|(_, c)| c.label == v["case"].as_str().unwrap()).expect("unknown stream case");
                generic::c10_replay(subject.as_ref(), &case, &v)
            }
            other => {
                eprintln!("mc-aiger: cannot replay property {other:?}");
                std::process::exit(2);
            }
        };
        println!("{text}");
        println!("{}", if violated { "REPLAY: property violated" } else { "REPLAY: property holds" });
        std::process::exit(if violated { 1 } else { 0 });
    }
    let mut report = Report::new();
    let budget = Budget::new(tier.pick(40.0, 1500.0));
    let rule: String = match cli.cmd.as_str() {
        "C01" => {
            for kind in FORMATS {
                let subs = subjects::subjects(kind, &lits_for(tier));
                let inp = gen::inputs(kind, tier);
                let params = C01Params {
                    all_len: tier.pick(9, 12),
                    dev_bound: 2,
                    dev_interrupts: 1,
                    dev2_max_len: tier.pick(48, 120),
                    uni: tier.pick(vec![1, 2, 3, 7, 8, 9], (1..=17).collect()),
                    chunks: tier.pick(vec![Some(1), Some(3), Some(8), None], vec![Some(1), Some(2), Some(3), Some(7), Some(8), Some(9), Some(16), None]),
                };
                let mut docs = inp.all();
                docs.extend(long_token_light(kind));
                report.count(&format!("{kind}_documents"), docs.len() as u64);
                report.count(&format!("{kind}_subjects"), subs.len() as u64);
                generic::c01(&subs, &docs, &params, &budget, &mut report);
                if !budget.expired() {
                    report.completed.push(format!("{kind}: {} documents (corpus {}, single-edit neighbours {}, token sequences {}) x {} subjects: ALL(n<={}) + DEV({}) with <=1 Interrupted + UNI{:?} x chunks {:?}", docs.len(), inp.corpus.len(), inp.neighbours.len(), inp.sequences.len(), subs.len(), params.all_len, params.dev_bound, params.uni, params.chunks));
                }
                sample_docs(&mut report, kind, &inp.corpus);
                let reference = subjects::make(&format!("{kind}-parse"), "u32");
                let small: Vec<generic::Doc> = inp.corpus.iter().cloned().chain(inp.neighbours.iter().filter(|d| d.bytes.len() <= 24).cloned()).collect();
                generic::c01_constructors(reference.as_ref(), &small, &|b| subjects::via_constructors(kind, b), &mut report);
            }
            report.traces = report.evaluations;
            "inputs = hand-written corpus of well-formed documents per parser + all their single-edit neighbours (every truncation, every byte deleted, every byte replaced by each of 8 marker bytes) + all concatenations of up to 2 (quick) / 3 (thorough) tokens of a per-format token alphabet, deduplicated; schedules = every composition of the input into reads (with up to one Interrupted anywhere) for short inputs, all schedules with a bounded number of deviations from the one-shot schedule for longer ones, and uniform grains x chunk sizes; every execution compared with the one-shot execution. Non-trivial = at least two successful reads (a refill happened mid-document)".into()
        }
        "C04" => {
            for kind in FORMATS {
                let subs = subjects::subjects(kind, &tier.pick(vec!["u32"], subjects::LITS.to_vec()));
                let inp = gen::inputs(kind, tier);
                let mut docs = inp.corpus.clone();
                if tier == Tier::Thorough {
                    docs.extend(inp.neighbours.iter().cloned());
                } else {
                    // truncations and garbage neighbours of the two shortest well-formed documents
                    docs.extend(inp.neighbours.iter().filter(|d| d.bytes.len() <= 30).cloned());
                }
                docs.extend(inp.sequences.iter().filter(|d| d.bytes.len() <= 12).cloned());
                let docs = generic::dedup_docs(docs);
                let params = C04Params { max_len: tier.pick(120, 400), uni: vec![1, 3], dev_bound: 1, dev_max_len: tier.pick(40, 120) };
                report.count(&format!("{kind}_documents"), docs.len() as u64);
                generic::c04(&subs, &docs, &params, &budget, &mut report);
                if !budget.expired() {
                    report.completed.push(format!("{kind}: {} documents x {} subjects x every fault offset 0..=len x {{one-shot, UNI(1), UNI(3) (chunk default and =grain), all single cuts for len<={}}}", docs.len(), subs.len(), params.dev_max_len));
                }
                sample_docs(&mut report, kind, &inp.corpus);
            }
            report.traces = report.evaluations;
            "every document x every fault offset k in 0..=len (the source delivers k bytes, then fails permanently) x schedules of the delivered prefix; compared with the fault-free run. Non-trivial = fault offset strictly inside a token or at the very end (after a construct that accepts end of input)".into()
        }
        "C05" => {
            let mut groups = Vec::new();
            for kind in FORMATS {
                // extreme counts only bite for the widest literal type: always include usize here
                let mut subs = subjects::subjects(kind, &tier.pick(vec!["u32", "u8", "usize"], subjects::LITS.to_vec()));
                // what was parsed must also survive the renumbering entry point of aig.rs
                subs.push(subjects::make(&format!("{kind}-renumber"), "u32"));
                {
                    let mut rsubs = subjects::subjects(kind, &["u32"]);
                    rsubs.push(subjects::make(&format!("{kind}-renumber"), "u32"));
                    let n = if generic::deep_profile() { 200_000 } else { tier.pick(100_000, 300_000) };
                    groups.push((format!("{kind}-repetitions"), rsubs, repetition_docs(kind, n)));
                    if generic::deep_profile() {
                        continue;
                    }
                }
                let inp = gen::inputs_seq(kind, tier, tier.pick(3, 4));
                sample_docs(&mut report, kind, &inp.sequences);
                let mut docs = inp.all();
                docs.extend(gen::header_docs(kind));
                let contexts = long_contexts(kind);
                docs.extend(generic::long_token_docs(&contexts));
                groups.push((kind.to_string(), subs, generic::dedup_docs(docs)));
            }
            generic::c05_isolated(&groups, tier.pick(40.0, 1500.0), &mut report);
            report.traces = report.evaluations;
            "every document of the generated families x every subject x {one-shot, byte-wise}, each (subject, document) unit run in an isolated single-threaded worker process: the run must return a value (no panic incl. overflow / debug assertion in the checked build, no abort, no stack overflow, no hang), within 2 s, with peak requested heap <= 64 x consumed bytes (256 x for the subjects that also renumber what was parsed) + 2 MiB + 4 chunks (counting allocator, per thread). Non-trivial: every case (each is a distinct input x subject). Repetition family: one construct (section entry, justice size, symbol, comment line, gate, gate chain that the renumbering has to descend) repeated 100 000 - 300 000 times; the quick tier runs it in the UNOPTIMISED profile as well (opt-level 0: recursion that an optimiser turns into a loop overflows the stack only there)".into()
        }
        "C08" => {
            for kind in FORMATS {
                let subs = subjects::subjects(kind, &lits_for(tier));
                let inp = gen::inputs(kind, tier);
                let docs = inp.all();
                let cat = catalogue::corruptions(kind);
                report.count(&format!("{kind}_corruptions"), cat.len() as u64);
                let mut pairs: Vec<(usize, Corruption)> = Vec::new();
                for c in cat {
                    for si in 0..subs.len() {
                        // circuits with many variables do not fit the narrow literal types (their
                        // error is the header's, rightly)
                        let narrow = subs[si].name().contains("<u8>") || (subs[si].name().contains("<u16>") && c.doc.name.contains("three-byte"));
                        if narrow && (c.doc.name.contains("two-byte") || c.doc.name.contains("three-byte")) {
                            continue;
                        }
                        pairs.push((si, Corruption { doc: c.doc.clone(), line: c.line, col_first: c.col_first, col_last: c.col_last, what: c.what.clone() }));
                    }
                }
                generic::c08(&subs, &docs, &pairs, tier, &budget, &mut report);
                report.completed.push(format!("{kind}: in-range clause on {} documents x {} subjects x schedules; exact-location clause on {} (corruption, subject) pairs", docs.len(), subs.len(), pairs.len()));
                sample_docs(&mut report, kind, &inp.corpus);
            }
            report.traces = report.evaluations;
            "(a) every generated document x subject x {one-shot, byte-wise with chunk 1, 3 bytes with chunk 3, byte-wise, 7 bytes with chunk 16}: a reported syntax error must lie inside the input (1<=line<=lines+1, 1<=column<=len(line)+1); (b) well-formed base documents x every token x catalogue {garbage token, overflowing number, literal/group out of range, missing separator, clause count off by one}: line = the token's line, column on the token. Non-trivial = runs ending in a syntax error".into()
        }
        "C09" => {
            for kind in FORMATS {
                let subs = subjects::subjects(kind, &tier.pick(vec!["u32"], vec!["u8", "u32", "usize"]));
                let inp = gen::inputs(kind, tier);
                generic::c09(&subs, &inp.corpus, tier, &budget, &mut report);
                generic::c09_finish();
                report.completed.push(format!("{kind}: {} corpus documents x {} streaming subjects, line gated source, DEV(1..2) x chunk sizes", inp.corpus.len(), subs.len()));
                sample_docs(&mut report, kind, &inp.corpus);
            }
            report.traces = report.evaluations;
            "every well-formed corpus document x streaming subject, delivered by a source that hands out at most the rest of the current line per read (choice: any shorter amount; deviation bounded) x chunk sizes; at the moment each item is returned the source must not have been asked beyond the line that completes the item (completing line = line containing the end of the shortest prefix on which the parser, given end of input, returns the same item)".into()
        }
        "C03" => {
            c03::run(tier, &mut report, &|format| gen::inputs_seq(format, tier, tier.pick(3, 4)).all());
            c03::RULE.into()
        }
        "C10" => {
            generic::c10_streams(&c10_cases(), tier, &mut report);
            report.traces = report.evaluations;
            "parser half: AIGER documents generated on the fly streamed through the section (streaming) API of the ascii and binary parsers, one long section of small entries per case, at two lengths x chunk sizes x read grains; peak live heap bounded by 16*chunk + 32*max_item + 8 KiB and independent of the length".into()
        }
        "C12" => {
            c12::run(tier, &mut report);
            c12::RULE.into()
        }
        "C06" => {
            c06::run(tier, &mut report, &|format| gen::inputs_seq(format, tier, tier.pick(3, 4)).all());
            c06::RULE.into()
        }
        other => {
            eprintln!("mc-aiger: unknown property {other:?}");
            std::process::exit(2);
        }
    };
    let v = report.to_json(&cli.cmd, "aiger", tier.name(), t0.elapsed().as_secs_f64(), &rule);
    write_out(&cli, &v);
}

fn sample_docs(report: &mut Report, kind: &str, docs: &[mc_core::generic::Doc]) {
    for d in docs.iter().skip(1).take(1) {
        report.sample(mc_core::json!({"family": kind, "document": d.name, "bytes": mc_core::show(&d.bytes)}));
    }
}

#[allow(dead_code)]
fn unused(_: &dyn Subject) {}

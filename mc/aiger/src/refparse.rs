//! Independent reference reader for AIGER (ASCII and binary), written from the format rules the
//! property states: numbers as decimal strings (arbitrary precision), literals at most 2M+1, defined
//! literals even and non-zero, section sizes equal to the header counts, symbol indices below their
//! section's size, binary deltas not larger than the code they are subtracted from. Shares no code
//! with flussab. The result is a flat, canonical description that can be compared with what the
//! flussab parsers returned.

use mc_core::bigdec::{add, canon, cmp, le, mul_small, sub};
use std::cmp::Ordering;

#[derive(Clone, Debug, PartialEq, Eq)]
pub struct Flat {
    /// header fields M I L O A B C J F
    pub header: Vec<String>,
    /// every number of the sections in order (ascii: inputs, latch triples with the reset given as
    /// 0/1/"x"; outputs; bad; constraints; justice sizes; justice literals; fairness; and triples)
    pub numbers: Vec<String>,
    pub symbols: Vec<(char, String, Vec<u8>)>,
    pub comment: Option<Vec<u8>>,
}

struct Cur<'a> {
    b: &'a [u8],
    p: usize,
}

impl<'a> Cur<'a> {
    fn peek(&self) -> Option<u8> {
        self.b.get(self.p).copied()
    }
    fn eat(&mut self, c: u8) -> Result<(), String> {
        if self.peek() == Some(c) {
            self.p += 1;
            Ok(())
        } else {
            Err(format!("expected {:?} at offset {}", c as char, self.p))
        }
    }
    fn number(&mut self) -> Result<String, String> {
        let s = self.p;
        while self.peek().map_or(false, |c| c.is_ascii_digit()) {
            self.p += 1;
        }
        if s == self.p {
            return Err(format!("expected a number at offset {s}"));
        }
        let t = std::str::from_utf8(&self.b[s..self.p]).unwrap();
        if t.len() > 1 && t.starts_with('0') {
            return Err(format!("leading zero at offset {s}"));
        }
        Ok(t.to_string())
    }
    fn varint(&mut self) -> Result<String, String> {
        // 7-bit groups, least significant first; arbitrary precision
        let mut value = "0".to_string();
        let mut scale = "1".to_string();
        let mut n = 0;
        loop {
            let c = self.peek().ok_or_else(|| "end of file inside a 7-bit code".to_string())?;
            self.p += 1;
            n += 1;
            let part = mul_small(&scale, (c & 0x7f) as u32);
            value = add(&value, &part);
            scale = mul_small(&scale, 128);
            if c & 0x80 == 0 {
                break;
            }
            if n > 40 {
                return Err("absurdly long 7-bit code".into());
            }
        }
        Ok(canon(&value))
    }
}

fn to_usize(s: &str) -> Option<usize> {
    s.parse::<usize>().ok()
}

/// `max_code`: the literal type's MAX_CODE as a decimal string.
pub fn parse(input: &[u8], binary: bool, max_code: &str) -> Result<Flat, String> {
    let mut c = Cur { b: input, p: 0 };
    for &ch in if binary { b"aig" } else { b"aag" } {
        c.eat(ch)?;
    }
    let mut header: Vec<String> = Vec::new();
    for _ in 0..5 {
        c.eat(b' ')?;
        header.push(c.number()?);
    }
    while header.len() < 9 && c.peek() == Some(b' ') {
        c.p += 1;
        header.push(c.number()?);
    }
    c.eat(b'\n')?;
    while header.len() < 9 {
        header.push("0".into());
    }
    let m = header[0].clone();
    // M <= (MAX_CODE - 1) / 2  <=>  2M + 1 <= MAX_CODE
    let max_lit = add(&mul_small(&m, 2), "1");
    if !le(&max_lit, max_code) {
        return Err(format!("maximum variable index {m} does not fit the literal type"));
    }
    // I + L + A <= M
    let ila = add(&add(&header[1], &header[2]), &header[4]);
    if !le(&ila, &m) {
        return Err(format!("I+L+A = {ila} exceeds M = {m}"));
    }
    let count = |i: usize| to_usize(&header[i]).ok_or_else(|| format!("count {} too large to enumerate", header[i]));
    let (ni, nl, no, na, nb, nc, nj, nf) = (count(1)?, count(2)?, count(3)?, count(4)?, count(5)?, count(6)?, count(7)?, count(8)?);
    let mut numbers: Vec<String> = Vec::new();
    let lit = |c: &mut Cur, defining: bool| -> Result<String, String> {
        let n = c.number()?;
        if !le(&n, &max_lit) {
            return Err(format!("literal {n} exceeds 2M+1 = {max_lit}"));
        }
        if defining {
            let last = n.as_bytes()[n.len() - 1] - b'0';
            if n == "0" || last % 2 == 1 {
                return Err(format!("defined literal {n} is constant or negated"));
            }
        }
        Ok(n)
    };
    // the binary format numbers inputs, latches and gates implicitly: running code
    let mut code = mul_small(&add(&header[1], "1"), 2);
    if !binary {
        for _ in 0..ni {
            numbers.push(lit(&mut c, true)?);
            c.eat(b'\n')?;
        }
    }
    for _ in 0..nl {
        let state = if binary { code.clone() } else { lit(&mut c, true)? };
        if !binary {
            numbers.push(state.clone());
            c.eat(b' ')?;
        }
        numbers.push(lit(&mut c, false)?);
        if c.peek() == Some(b' ') {
            c.p += 1;
            let init = lit(&mut c, false)?;
            if init == "0" || init == "1" {
                numbers.push(init);
            } else if init == state {
                numbers.push("x".into());
            } else {
                return Err(format!("latch reset {init} is neither 0, 1 nor the latch {state}"));
            }
        } else {
            numbers.push("0".into());
        }
        c.eat(b'\n')?;
        if binary {
            code = add(&code, "2");
        }
    }
    for _ in 0..no.saturating_add(nb).saturating_add(nc) {
        numbers.push(lit(&mut c, false)?);
        c.eat(b'\n')?;
    }
    let mut total = 0usize;
    for _ in 0..nj {
        let n = c.number()?;
        c.eat(b'\n')?;
        total = total.checked_add(to_usize(&n).ok_or("justice size too large")?).ok_or("justice sizes overflow")?;
        numbers.push(n);
    }
    for _ in 0..total.saturating_add(nf) {
        numbers.push(lit(&mut c, false)?);
        c.eat(b'\n')?;
    }
    for _ in 0..na {
        if binary {
            let d0 = c.varint()?;
            if cmp(&d0, &code) == Ordering::Greater {
                return Err(format!("delta {d0} larger than the gate code {code}"));
            }
            let r0 = sub(&code, &d0);
            let d1 = c.varint()?;
            if cmp(&d1, &r0) == Ordering::Greater {
                return Err(format!("delta {d1} larger than the first input {r0}"));
            }
            let r1 = sub(&r0, &d1);
            numbers.push(r0);
            numbers.push(r1);
            code = add(&code, "2");
        } else {
            numbers.push(lit(&mut c, true)?);
            c.eat(b' ')?;
            numbers.push(lit(&mut c, false)?);
            c.eat(b' ')?;
            numbers.push(lit(&mut c, false)?);
            c.eat(b'\n')?;
        }
    }
    // symbol table
    let mut symbols = Vec::new();
    let mut comment = None;
    loop {
        let k = match c.peek() {
            None => break,
            Some(k) => k,
        };
        let size = match k {
            b'i' => ni,
            b'l' => nl,
            b'o' => no,
            b'b' => nb,
            b'c' => nc,
            b'j' => nj,
            b'f' => nf,
            _ => return Err(format!("unexpected byte {k:#x} at offset {} (symbol, comment or end of file expected)", c.p)),
        };
        if k == b'c' && c.b.get(c.p + 1) == Some(&b'\n') {
            c.p += 2;
            let rest = &c.b[c.p..];
            if std::str::from_utf8(rest).is_err() {
                return Err("comment is not valid UTF-8".into());
            }
            if rest.is_empty() {
                comment = Some(Vec::new());
            } else if rest.last() == Some(&b'\n') {
                comment = Some(rest[..rest.len() - 1].to_vec());
            } else {
                return Err("comment does not end with a newline".into());
            }
            c.p = c.b.len();
            break;
        }
        c.p += 1;
        let idx = c.number()?;
        match to_usize(&idx) {
            Some(i) if i < size => {}
            _ => return Err(format!("symbol index {idx} is not below the section size {size}")),
        }
        c.eat(b' ')?;
        let s = c.p;
        while c.peek().map_or(false, |x| x != b'\n') {
            c.p += 1;
        }
        let name = c.b[s..c.p].to_vec();
        if std::str::from_utf8(&name).is_err() {
            return Err("symbol name is not valid UTF-8".into());
        }
        c.eat(b'\n')?;
        symbols.push((k as char, idx, name));
    }
    if c.p != c.b.len() {
        return Err(format!("trailing data at offset {}", c.p));
    }
    Ok(Flat { header, numbers, symbols, comment })
}

//! Cross-format property drivers: C01 (schedule independence), C04 (failing source), C05 (totality,
//! bounded resources), C08 (error locations), C09 parser half (no read past the completing line).
//! Each takes the subjects and documents of one format family; everything runs the real parsers.

use crate::choice::explore;
use crate::report::Report;
use crate::source::{Grain, Menu, SourceCfg};
use crate::subject::{End, Execution, Subject};
use crate::{hex, json, show, unhex, Budget, Tier, Value};

#[derive(Clone, Debug)]
pub struct Doc {
    pub name: String,
    pub bytes: Vec<u8>,
}

impl Doc {
    pub fn new(name: impl Into<String>, bytes: impl Into<Vec<u8>>) -> Self {
        Doc { name: name.into(), bytes: bytes.into() }
    }
}

/// Deduplicate documents by content, keep first names, order by (length, bytes): simplest first.
pub fn dedup_docs(mut docs: Vec<Doc>) -> Vec<Doc> {
    docs.sort_by(|a, b| (a.bytes.len(), &a.bytes).cmp(&(b.bytes.len(), &b.bytes)));
    docs.dedup_by(|a, b| a.bytes == b.bytes);
    docs
}

// ------------------------------------------------------------------------------------------------
// execution specs (replayable)

#[derive(Clone, Debug, PartialEq)]
pub struct Spec {
    pub grain: Grain,
    pub chunk: Option<usize>,
    pub fault_at: Option<usize>,
    /// index into `source::FAULT_KINDS` (0 = Other)
    pub fault_kind: usize,
    pub interrupts: u32,
    pub line_gated: bool,
    pub forced: Vec<(u32, u32)>,
    /// build the reader with from_buf_reader(BufReader::with_capacity(cap, source)) after one fill
    pub via_buf_reader: Option<usize>,
    /// the source overwrites the unused tail of every slice it is handed with this byte
    pub scribble: Option<u8>,
    /// the document is embedded: this many bytes of an envelope line come first in the stream and
    /// are consumed (`advance`) before the parser is built on the reader
    pub embedded: Option<usize>,
}

impl Spec {
    pub fn oneshot() -> Spec {
        Spec { grain: Grain::OneShot, chunk: None, fault_at: None, fault_kind: 0, interrupts: 0, line_gated: false, forced: vec![], via_buf_reader: None, embedded: None, scribble: None }
    }
    pub fn uniform(s: usize, chunk: Option<usize>) -> Spec {
        Spec { grain: Grain::Uniform(s), chunk, ..Spec::oneshot() }
    }
    pub fn choose(forced: Vec<(u32, u32)>, interrupts: u32, chunk: Option<usize>) -> Spec {
        Spec { grain: Grain::Choose(Menu::AllSizes), chunk, interrupts, forced, ..Spec::oneshot() }
    }
    pub fn fault(mut self, k: Option<usize>) -> Spec {
        self.fault_at = k;
        self
    }
    pub fn fault_kind(mut self, k: usize) -> Spec {
        self.fault_kind = k;
        self
    }
    pub fn embedded(mut self, k: usize) -> Spec {
        self.embedded = Some(k);
        self
    }
    pub fn via_buf_reader(mut self, cap: usize) -> Spec {
        self.via_buf_reader = Some(cap);
        self
    }
    pub fn scribble(mut self, b: u8) -> Spec {
        self.scribble = Some(b);
        self
    }
    pub fn gated(mut self) -> Spec {
        self.line_gated = true;
        self
    }
    pub fn to_json(&self) -> Value {
        json!({
            "grain": match &self.grain {
                Grain::OneShot => json!(["oneshot"]),
                Grain::Uniform(s) => json!(["uniform", s]),
                Grain::Choose(_) => json!(["choose"]),
                Grain::InterruptedBursts(k, size) => json!(["interrupted_bursts", k, size]),
                Grain::Script(_) => json!(["script"]),
            },
            "chunk": self.chunk,
            "fault_at": self.fault_at,
            "fault_kind": self.fault_kind,
            "interrupts": self.interrupts,
            "line_gated": self.line_gated,
            "via_buf_reader": self.via_buf_reader,
            "scribble": self.scribble,
            "embedded": self.embedded,
            "choices": self.forced.iter().map(|(c, n)| json!([c, n])).collect::<Vec<_>>(),
        })
    }
    pub fn from_json(v: &Value) -> Spec {
        let grain = match v["grain"][0].as_str().unwrap() {
            "oneshot" => Grain::OneShot,
            "uniform" => Grain::Uniform(v["grain"][1].as_u64().unwrap() as usize),
            "interrupted_bursts" => Grain::InterruptedBursts(v["grain"][1].as_u64().unwrap() as u32, v["grain"][2].as_u64().unwrap() as usize),
            _ => Grain::Choose(Menu::AllSizes),
        };
        Spec {
            grain,
            chunk: v["chunk"].as_u64().map(|c| c as usize),
            fault_at: v["fault_at"].as_u64().map(|c| c as usize),
            fault_kind: v["fault_kind"].as_u64().unwrap_or(0) as usize,
            interrupts: v["interrupts"].as_u64().unwrap_or(0) as u32,
            line_gated: v["line_gated"].as_bool().unwrap_or(false),
            via_buf_reader: v["via_buf_reader"].as_u64().map(|c| c as usize),
            scribble: v["scribble"].as_u64().map(|c| c as u8),
            embedded: v["embedded"].as_u64().map(|c| c as usize),
            forced: v["choices"].as_array().map(|a| a.iter().map(|c| (c[0].as_u64().unwrap() as u32, c[1].as_u64().unwrap() as u32)).collect()).unwrap_or_default(),
        }
    }
    pub fn describe(&self) -> String {
        let g = match &self.grain {
            Grain::OneShot => "one-shot".to_string(),
            Grain::Uniform(s) => format!("{s} byte(s) per read"),
            Grain::Choose(_) => format!("choices {:?}", self.forced.iter().map(|c| c.0).collect::<Vec<_>>()),
            Grain::Script(_) => "script".into(),
            Grain::InterruptedBursts(k, size) => format!("{k} Interrupted answers before every read of up to {size} bytes"),
        };
        format!(
            "{g}, chunk {}{}{}{}",
            self.chunk.map_or("default".to_string(), |c| c.to_string()),
            self.fault_at.map_or(String::new(), |k| format!(", source fails at offset {k} with {:?}", crate::source::FAULT_KINDS[self.fault_kind % crate::source::FAULT_KINDS.len()])),
            if self.interrupts > 0 { format!(", up to {} Interrupted", self.interrupts) } else { String::new() },
            if self.line_gated { ", line gated" } else { "" }
        ) + &self.via_buf_reader.map_or(String::new(), |c| format!(", via from_buf_reader(BufReader of {c} bytes, filled once)"))
            + &self.scribble.map_or(String::new(), |b| format!(", source scribbles {:?} behind the bytes it delivers", b as char))
            + &self.embedded.map_or(String::new(), |k| format!(", embedded behind {k} envelope bytes that were advanced over before the parser was built"))
    }
}

pub fn run_spec(subject: &dyn Subject, input: &[u8], spec: &Spec) -> Execution {
    let describe = || {
        (
            format!("{}/fatal", family_of(subject)),
            format!("{} on {:?} [{}]", subject.name(), show(input), spec.describe()),
            json!({"property": "C05", "subject": subject.name(), "input_hex": hex(input), "input": show(input), "spec": spec.to_json()}),
        )
    };
    let _guard = crate::abortguard::enter(&describe);
    let boundaries = if spec.line_gated { Some(subject.boundaries(input)) } else { None };
    if let Some(k) = spec.embedded {
        // envelope: k - 1 bytes '#' and a line feed, then the document
        let mut data = vec![b'#'; k.saturating_sub(1)];
        if k > 0 {
            data.push(b'\n');
        }
        data.extend_from_slice(input);
        let cfg = SourceCfg::new(&data, spec.grain.clone()).fault_at(spec.fault_at.map(|f| f + k)).fault_kind(spec.fault_kind).interrupts(spec.interrupts).scribble(spec.scribble);
        return crate::subject::execute_embedded(subject, cfg, spec.chunk, spec.forced.clone(), k);
    }
    let cfg = SourceCfg::new(input, spec.grain.clone()).fault_at(spec.fault_at).fault_kind(spec.fault_kind).interrupts(spec.interrupts).boundaries(boundaries.as_deref()).scribble(spec.scribble);
    crate::subject::execute_via(subject, cfg, spec.chunk, spec.forced.clone(), spec.via_buf_reader)
}

fn replay_json(property: &str, subject: &dyn Subject, input: &[u8], spec: &Spec) -> Value {
    json!({"property": property, "subject": subject.name(), "input_hex": hex(input), "input": show(input), "spec": spec.to_json()})
}

/// Explore all executions of `subject` on `input` under the choice grain with a deviation bound.
/// `each` is called for every execution with the spec that reproduces it.
fn explore_schedules(
    subject: &dyn Subject,
    input: &[u8],
    base: &Spec,
    bound: Option<usize>,
    report: &mut Report,
    mut each: impl FnMut(&Spec, &Execution, &mut Report),
) {
    let r = explore(
        bound,
        |prefix| {
            let mut spec = base.clone();
            spec.forced = prefix;
            let ex = run_spec(subject, input, &spec);
            let (taken, diverged) = {
                let s = ex.src.borrow();
                (s.chooser.taken.clone(), s.chooser.diverged.clone())
            };
            if let Some(d) = diverged {
                return Err(d);
            }
            spec.forced = taken.clone();
            each(&spec, &ex, report);
            Ok(taken)
        },
        || false,
    );
    if let Err(e) = r {
        report.machinery_errors.push(format!("nondeterministic replay for {} on {:?}: {e}", subject.name(), show(input)));
    }
}

fn family_of(subject: &dyn Subject) -> String {
    let n = subject.name();
    n.split(|c| c == '<' || c == '/').next().unwrap_or("?").to_string()
}

fn obs(ex: &Execution) -> String {
    format!("{} item(s) then {}", ex.items.len(), ex.end.short())
}

// ------------------------------------------------------------------------------------------------
// C01

pub struct C01Params {
    /// inputs up to this length get ALL schedules (every composition)
    pub all_len: usize,
    /// deviation bound for longer inputs
    pub dev_bound: usize,
    pub dev_interrupts: u32,
    /// inputs longer than this only get DEV(1)
    pub dev2_max_len: usize,
    pub uni: Vec<usize>,
    pub chunks: Vec<Option<usize>>,
}

fn c01_compare(property: &str, subject: &dyn Subject, input: &[u8], reference: &Execution, spec: &Spec, ex: &Execution, report: &mut Report) {
    report.evaluations += 1;
    let (reads, realign_possible) = {
        let s = ex.src.borrow();
        (s.ok_reads, s.pos)
    };
    report.transitions += ex.src.borrow().read_calls as u64;
    if reads >= 2 {
        report.nontrivial += 1;
    }
    let _ = realign_possible;
    let same_items = ex.items == reference.items;
    let same_end = ex.end.same_outcome(&reference.end);
    if !(same_items && same_end) {
        let kind = if !same_items && same_end { "items-differ".to_string() } else { format!("{}-becomes-{}", reference.end.kind(), ex.end.kind()) };
        let key = format!("{}/schedule-dependence/{}", family_of(subject), kind);
        report.violation_with(&key, (input.len() * 1000 + spec.forced.len()) as u64, || {
            let first_diff = ex.items.iter().zip(reference.items.iter()).position(|(a, b)| a != b);
            (
                format!(
                    "{} on {:?}: one-shot run gives {}; with [{}] it gives {}{}",
                    subject.name(),
                    show(input),
                    obs(reference),
                    spec.describe(),
                    obs(ex),
                    first_diff.map_or(String::new(), |i| format!("; first differing item #{i}: {:?} vs {:?}", reference.items[i], ex.items[i]))
                ),
                replay_json(property, subject, input, spec),
            )
        });
    }
}

pub fn c01(subjects: &[Box<dyn Subject>], docs: &[Doc], params: &C01Params, budget: &Budget, report: &mut Report) {
    c01_as("C01", subjects, docs, params, budget, report)
}

/// The schedule-independence sweep, reported under `property` (C14 reuses it for the SWAR load guards).
pub fn c01_as(property: &str, subjects: &[Box<dyn Subject>], docs: &[Doc], params: &C01Params, budget: &Budget, report: &mut Report) {
    let units: Vec<(usize, usize)> = (0..docs.len()).flat_map(|d| (0..subjects.len()).map(move |s| (s, d))).collect();
    let total = crate::par::par_fold(
        units.len(),
        crate::threads(),
        Report::new,
        |acc, i| {
            if budget.expired() {
                if acc.caps.is_empty() {
                    acc.cap("C01: time budget hit; remaining (subject, document) units skipped");
                }
                return;
            }
            let (si, di) = units[i];
            let subject = subjects[si].as_ref();
            let input = &docs[di].bytes;
            let reference = run_spec(subject, input, &Spec::oneshot());
            acc.outcome(format!("{}:{}", family_of(subject), reference.end.sig()));
            acc.states += 1;
            if docs[di].name.starts_with('^') {
                // long documents (several default chunks): refills, realigns and buffer growth at the
                // real 16 KiB chunk size, large and odd read sizes, a chunk size change up front
                acc.count(&format!("long_document {} ({} bytes) one-shot: {} items then {}", &docs[di].name[1..], input.len(), reference.items.len(), reference.end.kind()), 1);
                for (s, chunk) in [(16384usize, None), (4096, None), (1000, None), (333, Some(4096usize)), (7, Some(100)), (65536, Some(20000)), (1, Some(16384))] {
                    let spec = Spec::uniform(s, chunk);
                    let ex = run_spec(subject, input, &spec);
                    c01_compare(property, subject, input, &reference, &spec, &ex, acc);
                }
                let spec = Spec::uniform(5000, None).via_buf_reader(8192);
                let ex = run_spec(subject, input, &spec);
                c01_compare(property, subject, input, &reference, &spec, &ex, acc);
                return;
            }
            if docs[di].name.starts_with('~') {
                // lane families (every byte value at every position): what matters is block-wise
                // versus byte-wise processing, i.e. how much is buffered - uniform grains 1, 3, 8 and
                // 9 with the default and a small chunk size, and one from_buf_reader start
                for s in [1usize, 3, 8, 9] {
                    for chunk in [None, Some(8usize)] {
                        let spec = Spec::uniform(s, chunk);
                        let ex = run_spec(subject, input, &spec);
                        c01_compare(property, subject, input, &reference, &spec, &ex, acc);
                    }
                }
                let spec = Spec::uniform(16, None).via_buf_reader(8);
                let ex = run_spec(subject, input, &spec);
                c01_compare(property, subject, input, &reference, &spec, &ex, acc);
                for (b, s) in [(b'9', 3usize), (b'\n', 1)] {
                    let spec = Spec::uniform(s, None).scribble(b);
                    let ex = run_spec(subject, input, &spec);
                    c01_compare(property, subject, input, &reference, &spec, &ex, acc);
                }
                return;
            }
            if input.len() <= params.all_len {
                explore_schedules(subject, input, &Spec::choose(vec![], 1, None), None, acc, |spec, ex, rep| {
                    c01_compare(property, subject, input, &reference, spec, ex, rep)
                });
            } else {
                let bound = if input.len() <= params.dev2_max_len { params.dev_bound } else { 1 };
                explore_schedules(subject, input, &Spec::choose(vec![], params.dev_interrupts, None), Some(bound), acc, |spec, ex, rep| {
                    c01_compare(property, subject, input, &reference, spec, ex, rep)
                });
            }
            for &s in &params.uni {
                for &chunk in &params.chunks {
                    let spec = Spec::uniform(s, chunk);
                    let ex = run_spec(subject, input, &spec);
                    c01_compare(property, subject, input, &reference, &spec, &ex, acc);
                }
            }
            // long bursts of Interrupted in front of every read (retry loops must not give up)
            for (k, size, chunk) in [(12u32, usize::MAX, None), (40, 3, Some(2usize))] {
                let spec = Spec { grain: Grain::InterruptedBursts(k, size), chunk, ..Spec::oneshot() };
                let ex = run_spec(subject, input, &spec);
                c01_compare(property, subject, input, &reference, &spec, &ex, acc);
            }
            // the document embedded behind an envelope that was advanced over before the parser was built
            for (k, s, chunk) in [(12usize, 16usize, None), (5, 2, Some(2usize)), (1, 1, Some(1))] {
                let spec = Spec::uniform(s, chunk).embedded(k);
                let ex = run_spec(subject, input, &spec);
                c01_compare(property, subject, input, &reference, &spec, &ex, acc);
            }
            // a source that uses the slice it is handed as scratch space: behind the bytes it reports
            // it leaves digits / line feeds / blanks / letters (whoever looks beyond the valid window
            // finds them instead of zeros)
            for (b, s, chunk) in [(b'9', 1usize, None), (b'9', 3, Some(8usize)), (b'\n', 1, None), (b'\n', 2, Some(3)), (b' ', 1, Some(1)), (b'0', 7, None), (b'a', 1, None), (b'-', 5, Some(16))] {
                let spec = Spec::uniform(s, chunk).scribble(b);
                let ex = run_spec(subject, input, &spec);
                c01_compare(property, subject, input, &reference, &spec, &ex, acc);
            }
            // construction through from_buf_reader with left-over buffered bytes
            for (cap, s, chunk) in [(1usize, 1usize, Some(1usize)), (4, 3, Some(2)), (8, 16, None), (64, 2, Some(8)), (0, 3, None), (0, 1, Some(1)), (1, 2, None)] {
                let spec = Spec::uniform(s, chunk).via_buf_reader(cap);
                let ex = run_spec(subject, input, &spec);
                c01_compare(property, subject, input, &reference, &spec, &ex, acc);
            }
        },
        |a, b| a.merge(b),
    );
    report.merge(total);
}

pub fn c01_replay(subject: &dyn Subject, v: &Value) -> (bool, String) {
    let input = unhex(v["input_hex"].as_str().unwrap());
    let spec = Spec::from_json(&v["spec"]);
    let reference = run_spec(subject, &input, &Spec::oneshot());
    let ex = run_spec(subject, &input, &spec);
    let ex2 = run_spec(subject, &input, &spec);
    let mut text = format!("{} on {:?}\n  one-shot:  {:?} then {}\n  [{}]: {:?} then {}\n", subject.name(), show(&input), reference.items, reference.end.short(), spec.describe(), ex.items, ex.end.short());
    if ex.items != ex2.items || ex.end != ex2.end {
        text.push_str("  NONDETERMINISTIC REPLAY\n");
    }
    (!(ex.items == reference.items && ex.end.same_outcome(&reference.end)), text)
}

// ------------------------------------------------------------------------------------------------
// C04

pub struct C04Params {
    pub max_len: usize,
    pub uni: Vec<usize>,
    pub dev_bound: usize,
    pub dev_max_len: usize,
}

/// The same read schedule without the fault. Choice-point schedules are turned into explicit
/// scripts (the menus of the faulted run end at the fault and would not match otherwise).
fn same_reads_without_fault(spec: &Spec) -> Spec {
    let mut s = spec.clone().fault(None);
    if let Grain::Choose(_) = s.grain {
        let script = s
            .forced
            .iter()
            .map(|&(c, n)| {
                if c == 0 {
                    crate::source::Ans::Deliver(usize::MAX)
                } else if s.interrupts > 0 && c == n - 1 {
                    crate::source::Ans::Interrupt
                } else {
                    crate::source::Ans::Deliver(c as usize)
                }
            })
            .collect();
        s.grain = Grain::Script(script);
        s.forced = vec![];
        s.interrupts = 0;
    }
    s
}

fn c04_judge(reference: &Execution, ex: &Execution) -> Option<(&'static str, String)> {
    let triggered = ex.src.borrow().err_returned > 0;
    // (iii) items handed out before the end equal the fault-free items at the same index
    for (i, it) in ex.items.iter().enumerate() {
        if reference.items.get(i) != Some(it) {
            return Some(("item-differs", format!("item #{i} handed out before the error is {:?}, the fault-free run has {:?} there", it, reference.items.get(i))));
        }
    }
    match &ex.end {
        // "that I/O error": the source's own error object (kind, message and payload)
        End::Io(s) if triggered && !s.contains("/scripted-payload/") => Some(("io-error-identity", format!("the parser ended with an I/O error ({s}) that is not the source's own error object (its payload is gone)"))),
        End::Io(_) => None,
        End::Clean => Some(("clean-end-despite-fault", "the input was reported as successfully and completely parsed although the source failed".into())),
        End::Syntax { .. } => {
            if !triggered && ex.end.same_outcome(&reference.end) {
                None
            } else if triggered {
                Some(("syntax-error-after-fault", format!("a syntax error ({}) was reported for data that merely ends where the source failed", ex.end.short())))
            } else {
                Some(("syntax-error-differs", format!("syntax error {} differs from the fault-free run's {}", ex.end.short(), reference.end.short())))
            }
        }
        // a panic that the fault-free run has as well is C05's question, not a fault-handling one
        End::Panic { .. } if matches!(reference.end, End::Panic { .. }) && !triggered => None,
        End::Panic { .. } => Some(("panic", format!("panicked: {}", ex.end.short()))),
        End::OtherErr(e) => Some(("other-error", format!("ended with {e}"))),
    }
}

pub fn c04(subjects: &[Box<dyn Subject>], docs: &[Doc], params: &C04Params, budget: &Budget, report: &mut Report) {
    let units: Vec<(usize, usize)> = (0..docs.len()).filter(|&d| docs[d].bytes.len() <= params.max_len).flat_map(|d| (0..subjects.len()).map(move |s| (s, d))).collect();
    let total = crate::par::par_fold(
        units.len(),
        crate::threads(),
        Report::new,
        |acc, i| {
            if budget.expired() {
                if acc.caps.is_empty() {
                    acc.cap("C04: time budget hit; remaining (subject, document) units skipped");
                }
                return;
            }
            let (si, di) = units[i];
            let subject = subjects[si].as_ref();
            let input = &docs[di].bytes;
            let reference = run_spec(subject, input, &Spec::oneshot());
            acc.states += 1;
            for k in 0..=input.len() {
                let inside_token = k > 0 && k < input.len() && !input[k - 1].is_ascii_whitespace() && !input[k].is_ascii_whitespace();
                let mut judge = |spec: &Spec, ex: &Execution, rep: &mut Report| {
                    rep.evaluations += 1;
                    rep.transitions += ex.src.borrow().read_calls as u64;
                    if inside_token || k == input.len() {
                        rep.nontrivial += 1;
                    }
                    rep.outcome(format!("{}:{}:{}", family_of(subject), ex.end.kind(), ex.src.borrow().err_returned > 0));
                    if c04_judge(&reference, ex).is_some() {
                        // judged against the fault-free run under the SAME read schedule, so that
                        // only the effect of the fault is judged (schedule dependence is C01's)
                        let same = run_spec(subject, input, &same_reads_without_fault(spec));
                        if let Some((kind, what)) = c04_judge(&same, ex) {
                            let key = format!("{}/failing-source/{}", family_of(subject), kind);
                            rep.violation_with(&key, (input.len() * 1000 + k) as u64, || {
                                (format!("{} on {:?} [{}]: {what} (fault-free run with the same reads: {})", subject.name(), show(input), spec.describe(), obs(&same)), replay_json("C04", subject, input, spec))
                            });
                        }
                    }
                };
                let light = docs[di].name.starts_with('~');
                let mut specs = vec![Spec::oneshot().fault(Some(k))];
                if light {
                    // lane families: one-shot and byte-wise delivery of the prefix only
                    specs.push(Spec::uniform(1, Some(1)).fault(Some(k)));
                    for spec in &specs {
                        let ex = run_spec(subject, input, spec);
                        judge(spec, &ex, acc);
                    }
                    continue;
                }
                for &s in &params.uni {
                    specs.push(Spec::uniform(s, None).fault(Some(k)));
                    specs.push(Spec::uniform(s, Some(s.max(1))).fault(Some(k)));
                }
                specs.push(Spec::uniform(2, Some(2)).fault(Some(k)).via_buf_reader(4));
                // every other non-Interrupted error kind (the property quantifies over all of them)
                for kind in 1..crate::source::FAULT_KINDS.len() {
                    specs.push(Spec::oneshot().fault(Some(k)).fault_kind(kind));
                    if matches!(crate::source::FAULT_KINDS[kind], std::io::ErrorKind::UnexpectedEof | std::io::ErrorKind::WouldBlock | std::io::ErrorKind::TimedOut | std::io::ErrorKind::InvalidData | std::io::ErrorKind::WriteZero) {
                        specs.push(Spec::uniform(1, Some(1)).fault(Some(k)).fault_kind(kind));
                    }
                }
                for spec in &specs {
                    let ex = run_spec(subject, input, spec);
                    judge(spec, &ex, acc);
                }
                if input.len() <= params.dev_max_len {
                    explore_schedules(subject, input, &Spec::choose(vec![], 0, None).fault(Some(k)), Some(params.dev_bound), acc, |spec, ex, rep| judge(spec, ex, rep));
                }
            }
        },
        |a, b| a.merge(b),
    );
    report.merge(total);
}

pub fn c04_replay(subject: &dyn Subject, v: &Value) -> (bool, String) {
    let input = unhex(v["input_hex"].as_str().unwrap());
    let spec = Spec::from_json(&v["spec"]);
    let reference = run_spec(subject, &input, &same_reads_without_fault(&spec));
    let ex = run_spec(subject, &input, &spec);
    let verdict = c04_judge(&reference, &ex);
    let text = format!(
        "{} on {:?}\n  fault-free (same reads): {:?} then {}\n  [{}]: {:?} then {}\n  {}\n",
        subject.name(), show(&input), reference.items, reference.end.short(), spec.describe(), ex.items, ex.end.short(),
        verdict.as_ref().map_or("ok".to_string(), |(k, w)| format!("{k}: {w}"))
    );
    (verdict.is_some(), text)
}

// ------------------------------------------------------------------------------------------------
// C05 (in-process part: panic / heap bound / step budget). Process isolation lives in `isolate`.

pub const HEAP_FACTOR: usize = 64;
pub const HEAP_SLACK: usize = 2 << 20;

pub fn c05_case(subject: &dyn Subject, input: &[u8], spec: &Spec) -> Option<(String, String)> {
    crate::alloc::start();
    let t0 = crate::cputime::thread_cpu_secs();
    let ex = run_spec(subject, input, spec);
    let (peak, largest) = crate::alloc::stop();
    let consumed = ex.src.borrow().pos;
    if let End::Panic { msg, loc } = &ex.end {
        let class: String = msg.chars().take_while(|c| !c.is_ascii_digit()).take(40).collect();
        return Some((format!("panic/{}/{}", loc, class.trim().replace(' ', "-")), format!("panicked: {msg} @ {loc}")));
    }
    // subjects that also renumber what was parsed (parse -> Aig -> eight renumbering runs with their
    // literal maps and hash tables) hold a larger, still constant, multiple of the input: a binary
    // and gate is two input bytes and about 150 bytes of graph, map and stack entries
    let factor = if subject.name().contains("-renumber") { 4 * HEAP_FACTOR } else { HEAP_FACTOR };
    let allowed = factor * consumed + HEAP_SLACK + spec.chunk.unwrap_or(16 << 10) * 4;
    if peak > allowed {
        return Some(("heap".to_string(), format!("peak requested heap {peak} bytes (largest single request {largest}) after consuming {consumed} input bytes; bound {allowed}")));
    }
    let cpu = crate::cputime::thread_cpu_secs() - t0;
    if cpu > 2.0 {
        return Some(("time".to_string(), format!("took {cpu:.1}s of CPU time for {} bytes", input.len())));
    }
    None
}

pub fn c05_units(subjects: &[Box<dyn Subject>], docs: &[Doc]) -> Vec<(usize, usize)> {
    (0..docs.len()).flat_map(|d| (0..subjects.len()).map(move |s| (s, d))).collect()
}

pub fn c05_specs() -> Vec<Spec> {
    vec![Spec::oneshot(), Spec::uniform(1, Some(1))]
}

/// True in the unoptimised build profile (`debug0`: opt-level 0, what `cargo build` / `cargo test`
/// give a user): the driver exports MC_PROFILE. There only the repetition family is run - recursion
/// that the optimiser turns into a loop overflows the stack only in such a build.
pub fn deep_profile() -> bool {
    std::env::var("MC_PROFILE").map_or(false, |p| p == "debug0")
}

/// `prefix`, `n` times `period`, `suffix`: one construct repeated so often that any per-repetition
/// stack frame or allocation that is kept shows (stack overflow, heap bound).
pub fn repeat_doc(name: &str, prefix: &[u8], period: &[u8], n: usize, suffix: &[u8]) -> Doc {
    let mut b = Vec::with_capacity(prefix.len() + period.len() * n + suffix.len());
    b.extend_from_slice(prefix);
    for _ in 0..n {
        b.extend_from_slice(period);
    }
    b.extend_from_slice(suffix);
    Doc::new(format!("repeat:{name}"), b)
}

/// Like `repeat_doc`, the k-th repetition rendered by `f(k)` (ids / literals that must increase).
pub fn numbered_doc(name: &str, prefix: &[u8], n: usize, f: &dyn Fn(usize) -> String, suffix: &[u8]) -> Doc {
    let mut b = Vec::new();
    b.extend_from_slice(prefix);
    for k in 0..n {
        b.extend_from_slice(f(k).as_bytes());
    }
    b.extend_from_slice(suffix);
    Doc::new(format!("repeat:{name}"), b)
}

/// Run one C05 unit (subject x document x both schedules) and record the result.
pub fn c05_unit(subject: &dyn Subject, input: &[u8], report: &mut Report) {
    c05_unit_as(subject, input, false, report)
}

/// `deep`: a repetition document (hundreds of thousands of repetitions). Schedules are one-shot and
/// 997 bytes per read with chunk 64; the per-case CPU limit is scaled to the document (and to the
/// unoptimised profile): 2 s + 40 us per input byte.
pub fn c05_unit_as(subject: &dyn Subject, input: &[u8], deep: bool, report: &mut Report) {
    let specs = if deep { vec![Spec::oneshot(), Spec::uniform(997, Some(64))] } else { c05_specs() };
    for spec in specs {
        report.evaluations += 1;
        report.transitions += 1;
        let mut verdict = c05_case(subject, input, &spec);
        if deep {
            if let Some((k, what)) = &verdict {
                if k == "time" {
                    let secs: f64 = what.split_whitespace().nth(1).and_then(|t| t.trim_end_matches('s').parse().ok()).unwrap_or(f64::MAX);
                    if secs <= 2.0 + input.len() as f64 * 40e-6 {
                        verdict = None;
                    }
                }
            }
        }
        match &verdict {
            None => report.outcome(format!("{}:ok", family_of(subject))),
            Some((k, _)) => report.outcome(format!("{}:{}", family_of(subject), k)),
        }
        if let Some((kind, what)) = verdict {
            let key = format!("{}/totality/{}", family_of(subject), kind);
            report.violation_with(&key, input.len() as u64, || (format!("{} on {:?} [{}]: {what}", subject.name(), show(input), spec.describe()), replay_json("C05", subject, input, &spec)));
        }
    }
}

pub fn c05_replay(subject: &dyn Subject, v: &Value) -> (bool, String) {
    let input = unhex(v["input_hex"].as_str().unwrap());
    let spec = Spec::from_json(&v["spec"]);
    let verdict = c05_case(subject, &input, &spec);
    let text = format!("{} on {:?} [{}]\n  {}\n", subject.name(), show(&input), spec.describe(), verdict.as_ref().map_or("terminated with a value within the resource bound".to_string(), |(k, w)| format!("{k}: {w}")));
    (verdict.is_some(), text)
}

// ------------------------------------------------------------------------------------------------
// C08

/// In-range clause: 1 <= line <= lines+1, 1 <= column <= len(line)+1. Lines are split at the LF
/// offsets in `breaks` (all LFs for text formats).
pub fn location_in_range(input: &[u8], breaks: &[usize], line: usize, column: usize) -> Result<(), String> {
    // line k (1-based) spans starts[k-1] .. (breaks[k-1] or end of input)
    let mut starts = vec![0usize];
    for &b in breaks {
        starts.push(b + 1);
    }
    // a trailing piece after the last LF that is empty does not count as a line
    let n_lines = if input.is_empty() { 0 } else if *starts.last().unwrap() >= input.len() { starts.len() - 1 } else { starts.len() };
    if line < 1 || line > n_lines + 1 {
        return Err(format!("line {line} is outside 1..={} (the input has {n_lines} line(s))", n_lines + 1));
    }
    let len = if line <= n_lines {
        let s = starts[line - 1];
        let e = breaks.get(line - 1).copied().unwrap_or(input.len());
        e - s
    } else {
        0
    };
    if column < 1 || column > len + 1 {
        return Err(format!("column {column} is outside 1..={} (line {line} has {len} bytes)", len + 1));
    }
    Ok(())
}

pub struct Corruption {
    pub doc: Doc,
    /// expected line and inclusive column range of the corrupted token (+1 allowed past the end)
    pub line: usize,
    pub col_first: usize,
    pub col_last: usize,
    pub what: String,
}

pub fn c08_specs(tier: Tier, len: usize) -> Vec<Spec> {
    let mut v = vec![Spec::oneshot(), Spec::uniform(1, Some(1)), Spec::uniform(3, Some(3)), Spec::uniform(1, None), Spec::uniform(7, Some(16)), Spec::oneshot().embedded(12), Spec::uniform(3, Some(3)).embedded(5)];
    if tier == Tier::Thorough {
        v.push(Spec::uniform(2, Some(1)));
        v.push(Spec::uniform(5, Some(2)));
    }
    let _ = len;
    v
}

pub fn c08(subjects: &[Box<dyn Subject>], docs: &[Doc], corruptions: &[(usize, Corruption)], tier: Tier, budget: &Budget, report: &mut Report) {
    // (a) in-range clause on every rejected input
    let units = c05_units(subjects, docs);
    let total = crate::par::par_fold(
        units.len(),
        crate::threads(),
        Report::new,
        |acc, i| {
            if budget.expired() {
                if acc.caps.is_empty() {
                    acc.cap("C08: time budget hit in the in-range sweep");
                }
                return;
            }
            let (si, di) = units[i];
            let subject = subjects[si].as_ref();
            let input = &docs[di].bytes;
            for spec in c08_specs(tier, input.len()) {
                let ex = run_spec(subject, input, &spec);
                acc.evaluations += 1;
                acc.transitions += 1;
                if let End::Syntax { line, column, .. } = &ex.end {
                    acc.nontrivial += 1;
                    acc.outcome(format!("{}:syntax", family_of(subject)));
                    if let Err(why) = location_in_range(input, &subject.line_breaks(input), *line, *column) {
                        let key = format!("{}/location/out-of-range", family_of(subject));
                        acc.violation_with(&key, input.len() as u64, || (format!("{} on {:?} [{}]: {}: {why}", subject.name(), show(input), spec.describe(), ex.end.short()), replay_json("C08", subject, input, &spec)));
                    }
                } else {
                    acc.outcome(format!("{}:{}", family_of(subject), ex.end.kind()));
                }
            }
        },
        |a, b| a.merge(b),
    );
    report.merge(total);
    // (b) exact-location clause on the corruption catalogue; (subject index, corruption)
    let total = crate::par::par_fold(
        corruptions.len(),
        crate::threads(),
        Report::new,
        |acc, i| {
            let (si, c) = &corruptions[i];
            let subject = subjects[*si].as_ref();
            let input = &c.doc.bytes;
            acc.states += 1;
            for spec in c08_specs(tier, input.len()) {
                let ex = run_spec(subject, input, &spec);
                acc.evaluations += 1;
                acc.transitions += 1;
                acc.nontrivial += 1;
                let verdict = c08_exact(c, &ex);
                acc.outcome(format!("{}:exact:{}", family_of(subject), verdict.is_none()));
                if let Some(("not-rejected", why)) = &verdict {
                    // C08 speaks about reported syntax errors; a corrupted catalogue document that
                    // is not rejected at all is C06's question (on the unchanged tree there is none)
                    acc.count("catalogue_documents_not_rejected_with_a_syntax_error", 1);
                    if acc.caps.len() < 4 {
                        acc.cap(format!("{} on {:?} ({}): {why}; no location to judge", subject.name(), show(input), c.what));
                    } else {
                        acc.not_exhaustive = true;
                    }
                    continue;
                }
                if let Some((kind, why)) = verdict {
                    let key = format!("{}/location/{kind}", family_of(subject));
                    acc.violation_with(&key, input.len() as u64, || {
                        let mut r = replay_json("C08", subject, input, &spec);
                        r["expect"] = json!({"line": c.line, "col_first": c.col_first, "col_last": c.col_last, "what": c.what});
                        (format!("{} on {:?} [{}] ({}): {why}", subject.name(), show(input), spec.describe(), c.what), r)
                    });
                }
            }
        },
        |a, b| a.merge(b),
    );
    report.merge(total);
}

fn c08_exact(c: &Corruption, ex: &Execution) -> Option<(&'static str, String)> {
    match &ex.end {
        End::Syntax { line, column, .. } => {
            if *line != c.line || *column < c.col_first || *column > c.col_last {
                Some(("wrong-position", format!("error reported at {line}:{column}, the corrupted token is on line {} columns {}..={}", c.line, c.col_first, c.col_last)))
            } else {
                None
            }
        }
        End::Panic { msg, loc } => Some(("panic", format!("panicked instead of reporting a location: {msg} @ {loc}"))),
        other => Some(("not-rejected", format!("the corrupted document was not rejected with a syntax error: {}", other.short()))),
    }
}

pub fn c08_replay(subject: &dyn Subject, v: &Value) -> (bool, String) {
    let input = unhex(v["input_hex"].as_str().unwrap());
    let spec = Spec::from_json(&v["spec"]);
    let ex = run_spec(subject, &input, &spec);
    let mut bad = false;
    let mut text = format!("{} on {:?} [{}]\n  outcome: {}\n", subject.name(), show(&input), spec.describe(), ex.end.short());
    if let End::Syntax { line, column, .. } = &ex.end {
        if let Err(why) = location_in_range(&input, &subject.line_breaks(&input), *line, *column) {
            bad = true;
            text.push_str(&format!("  out of range: {why}\n"));
        }
    }
    if let End::Panic { .. } = &ex.end {
        bad = true;
    }
    if !v["expect"].is_null() {
        let c = Corruption {
            doc: Doc::new("", input.clone()),
            line: v["expect"]["line"].as_u64().unwrap() as usize,
            col_first: v["expect"]["col_first"].as_u64().unwrap() as usize,
            col_last: v["expect"]["col_last"].as_u64().unwrap() as usize,
            what: v["expect"]["what"].as_str().unwrap_or("").to_string(),
        };
        if let Some((k, why)) = c08_exact(&c, &ex) {
            bad = true;
            text.push_str(&format!("  {k}: {why}\n"));
        }
    }
    (bad, text)
}

// ------------------------------------------------------------------------------------------------
// C09, parser half

/// For every item of the clean one-shot run: the offset of the last byte of the line (gating unit)
/// that completes it = end of the gating unit containing the last byte of the shortest prefix on
/// which the parser (fed that prefix followed by end of input) hands out the same item.
pub fn completion_offsets(subject: &dyn Subject, input: &[u8], reference: &Execution) -> (Vec<usize>, Vec<bool>) {
    let bounds = subject.boundaries(input);
    let mut out = Vec::new();
    // strict[i]: the shortest prefix of item i ends exactly with the line feed of its completing line
    // and more input follows: the item is complete without any knowledge of what comes next, so
    // even ASKING the source for more before handing it out is waiting for data nobody needs
    let mut strict = Vec::new();
    let mut p = 0usize;
    for i in 0..reference.items.len() {
        // monotone in i: start from the previous minimal prefix
        loop {
            let ex = run_spec(subject, &input[..p], &Spec::oneshot());
            if ex.items.len() > i && ex.items[..=i] == reference.items[..=i] {
                break;
            }
            p += 1;
            if p > input.len() {
                break;
            }
        }
        let p_min = p.min(input.len());
        // end of the gating unit containing byte p_min-1 (or the first unit if p_min == 0)
        let e = bounds.iter().copied().find(|&b| b >= p_min.max(1)).unwrap_or(input.len());
        out.push(e.saturating_sub(1));
        strict.push(p_min >= 1 && p_min < input.len() && p_min == e && input[p_min - 1] == b'\n');
    }
    (out, strict)
}

pub fn c09_judge(ex: &Execution, reference: &Execution, completion: &[usize], strict: &[bool]) -> Option<(usize, String)> {
    for (i, &handed) in ex.handed_out_at_item.iter().enumerate() {
        if i >= completion.len() {
            break;
        }
        if ex.items[i] != reference.items[i] {
            return Some((i, format!("item #{i} differs from the one-shot run (schedule dependence, see C01)")));
        }
        if handed > completion[i] + 1 {
            return Some((i, format!("item #{i} ({}) was handed out only after the source had delivered {handed} bytes; the line that completes it ends at offset {} ({} bytes)", ex.items[i], completion[i], completion[i] + 1)));
        }
        // asking counts as well: a read issued after the completing line had been delivered in full
        // waits for the next line (or for the end of the input) before the item is handed out
        if let Some(&asked) = ex.asked_at_item.get(i) {
            if asked > completion[i] && strict.get(i) == Some(&true) {
                return Some((i, format!("item #{i} ({}) was handed out only after the source had been asked for more at offset {asked}, behind the line that completes it (ends at offset {})", ex.items[i], completion[i])));
            }
        }
    }
    if ex.items.len() < reference.items.len() && matches!(reference.end, End::Clean) {
        return Some((ex.items.len(), format!("only {} of {} items were handed out ({})", ex.items.len(), reference.items.len(), ex.end.short())));
    }
    None
}

/// Completion offsets of the pinned baseline (`c09_golden.json` in the working directory, produced by
/// `MC_C09_WRITE_GOLDEN=1 ./check C09 quick` on the unchanged tree). The completion offsets used by
/// the check are computed with the parser under test itself, so a change that delays an item in the
/// same way for every source (e.g. reads all size lines of a section before it hands out the first)
/// moves them along; the recorded baseline pins them: an item may complete earlier than recorded,
/// never later.
fn c09_golden() -> &'static std::collections::HashMap<String, Vec<usize>> {
    static GOLDEN: std::sync::OnceLock<std::collections::HashMap<String, Vec<usize>>> = std::sync::OnceLock::new();
    GOLDEN.get_or_init(|| {
        let mut m = std::collections::HashMap::new();
        if let Ok(text) = std::fs::read_to_string("c09_golden.json") {
            if let Ok(Value::Object(o)) = serde_json::from_str::<Value>(&text) {
                for (k, v) in o {
                    if let Some(a) = v.as_array() {
                        m.insert(k, a.iter().filter_map(|x| x.as_u64().map(|n| n as usize)).collect());
                    }
                }
            }
        }
        m
    })
}

static C09_NEW_GOLDEN: std::sync::Mutex<Vec<(String, Vec<usize>)>> = std::sync::Mutex::new(Vec::new());

fn c09_write_golden() {
    if std::env::var_os("MC_C09_WRITE_GOLDEN").is_none() {
        return;
    }
    let mut all: serde_json::Map<String, Value> = match std::fs::read_to_string("c09_golden.json").ok().and_then(|t| serde_json::from_str::<Value>(&t).ok()) {
        Some(Value::Object(o)) => o,
        _ => serde_json::Map::new(),
    };
    for (k, v) in C09_NEW_GOLDEN.lock().unwrap().drain(..) {
        all.insert(k, json!(v));
    }
    let mut keys: Vec<&String> = all.keys().collect();
    keys.sort();
    let mut out = String::from("{\n");
    for (i, k) in keys.iter().enumerate() {
        out.push_str(&format!(" {}: {}{}\n", serde_json::to_string(k).unwrap(), serde_json::to_string(&all[*k]).unwrap(), if i + 1 < keys.len() { "," } else { "" }));
    }
    out.push_str("}\n");
    std::fs::write("c09_golden.json", out).expect("write c09_golden.json");
}

pub fn c09(subjects: &[Box<dyn Subject>], docs: &[Doc], tier: Tier, budget: &Budget, report: &mut Report) {
    let write_golden = std::env::var_os("MC_C09_WRITE_GOLDEN").is_some();
    let units: Vec<(usize, usize)> = c05_units(subjects, docs).into_iter().filter(|(s, _)| subjects[*s].streaming()).collect();
    let total = crate::par::par_fold(
        units.len(),
        crate::threads(),
        Report::new,
        |acc, i| {
            if budget.expired() {
                if acc.caps.is_empty() {
                    acc.cap("C09: time budget hit; remaining units skipped");
                }
                return;
            }
            let (si, di) = units[i];
            let subject = subjects[si].as_ref();
            let input = &docs[di].bytes;
            let reference = run_spec(subject, input, &Spec::oneshot());
            if !matches!(reference.end, End::Clean) || reference.items.is_empty() {
                return; // the property speaks about well-formed documents
            }
            acc.states += 1;
            let (completion, strict) = completion_offsets(subject, input, &reference);
            // pinned baseline: no item may complete later than recorded for this subject and document
            let gkey = format!("{}|{}", subject.name(), hex(input));
            if write_golden {
                C09_NEW_GOLDEN.lock().unwrap().push((gkey.clone(), completion.clone()));
            } else if let Some(g) = c09_golden().get(&gkey) {
                acc.count("documents_with_a_recorded_baseline", 1);
                if let Some(i) = (0..completion.len().min(g.len())).find(|&i| completion[i] > g[i]) {
                    let key = format!("{}/read-ahead/later-than-baseline", family_of(subject));
                    acc.violation_with(&key, input.len() as u64, || {
                        (format!("{} on {:?}: item #{i} ({}) is only handed out once the input up to offset {} is there (parser fed the shortest prefix + end of input); the recorded baseline needs offset {} only", subject.name(), show(input), reference.items[i], completion[i], g[i]), replay_json("C09", subject, input, &Spec::oneshot()))
                    });
                }
            } else {
                acc.count("documents_without_a_recorded_baseline", 1);
            }
            let mut judge = |spec: &Spec, ex: &Execution, rep: &mut Report| {
                rep.evaluations += 1;
                rep.transitions += ex.src.borrow().read_calls as u64;
                rep.nontrivial += 1;
                let max_slack = ex.handed_out_at_item.iter().zip(completion.iter()).map(|(h, c)| (c + 1).saturating_sub(*h)).min().unwrap_or(0);
                rep.max("min_slack_bytes_between_completion_and_delivery", max_slack as u64);
                rep.outcome(format!("{}:{}", family_of(subject), ex.items.len().min(6)));
                if let Some((item, why)) = c09_judge(ex, &reference, &completion, &strict) {
                    let key = format!("{}/read-ahead/{}", family_of(subject), reference.items[item.min(reference.items.len() - 1)].split(|c: char| !c.is_alphanumeric()).next().unwrap_or("item"));
                    rep.violation_with(&key, (input.len() * 1000 + spec.forced.len()) as u64, || (format!("{} on {:?} [{}]: {why}", subject.name(), show(input), spec.describe()), replay_json("C09", subject, input, spec)));
                }
            };
            let chunks: &[Option<usize>] = if tier == Tier::Quick { &[None, Some(1), Some(5)] } else { &[None, Some(1), Some(2), Some(5), Some(8)] };
            for &chunk in chunks {
                let bound = if chunk.is_none() { tier.pick(1, 2) } else { 1 };
                explore_schedules(subject, input, &Spec::choose(vec![], 0, chunk).gated(), Some(bound), acc, |spec, ex, rep| judge(spec, ex, rep));
            }
        },
        |a, b| a.merge(b),
    );
    report.merge(total);
}

pub fn c09_finish() {
    c09_write_golden();
}

pub fn c09_replay(subject: &dyn Subject, v: &Value) -> (bool, String) {
    let input = unhex(v["input_hex"].as_str().unwrap());
    let spec = Spec::from_json(&v["spec"]);
    let reference = run_spec(subject, &input, &Spec::oneshot());
    let (completion, strict) = completion_offsets(subject, &input, &reference);
    let ex = run_spec(subject, &input, &spec);
    let verdict = c09_judge(&ex, &reference, &completion, &strict);
    let text = format!(
        "{} on {:?} [{}]\n  items: {:?}\n  completing line ends at offsets: {:?}\n  bytes handed out when each item was returned: {:?}\n  {}\n",
        subject.name(), show(&input), spec.describe(), ex.items, completion, ex.handed_out_at_item, verdict.as_ref().map_or("ok".to_string(), |(_, w)| w.clone())
    );
    (verdict.is_some(), text)
}

// ------------------------------------------------------------------------------------------------
// document generators shared by the formats

pub const MARKERS: [u8; 8] = [b' ', b'\n', b'0', b'9', b'-', b'x', 0xff, b'\r'];

/// All single-edit neighbours of a document from the finite catalogue: every proper prefix
/// (truncation), every byte deleted, every byte replaced by each marker byte.
pub fn single_edit_neighbours(doc: &Doc, markers: &[u8]) -> Vec<Doc> {
    let b = &doc.bytes;
    let mut out = Vec::new();
    for k in 0..b.len() {
        out.push(Doc::new(format!("{}|trunc@{k}", doc.name), b[..k].to_vec()));
    }
    for k in 0..b.len() {
        let mut v = b.clone();
        v.remove(k);
        out.push(Doc::new(format!("{}|del@{k}", doc.name), v));
    }
    for k in 0..b.len() {
        for &m in markers {
            if b[k] != m {
                let mut v = b.clone();
                v[k] = m;
                out.push(Doc::new(format!("{}|set@{k}={m:#04x}", doc.name), v));
            }
        }
    }
    out
}

/// Every position of the document set to every one of the 256 byte values (per-byte
/// classification of the tokenizers: which bytes are blanks, digits, signs, line ends).
pub fn byte_sweep(doc: &Doc) -> Vec<Doc> {
    let b = &doc.bytes;
    let mut out = Vec::with_capacity(b.len() * 255);
    for k in 0..b.len() {
        for m in 0..=255u8 {
            if b[k] != m {
                let mut v = b.clone();
                v[k] = m;
                out.push(Doc::new(format!("~{}|set@{k}={m:#04x}", doc.name), v));
            }
        }
    }
    out
}

/// Number tokens directly followed by every non-digit byte value: `prefix` + 1..=9 digits (optionally
/// signed) + b + `suffix`, for all 246 non-digit byte values b. Only blanks and line ends may end a
/// number; block-wise digit scanners see every byte value in every lane after 1..=9 digits.
pub fn digit_byte_docs(name: &str, prefix: &[u8], suffix: &[u8], signed: bool) -> Vec<Doc> {
    let mut out = Vec::new();
    for k in 1..=9usize {
        for b in 0..=255u8 {
            if b.is_ascii_digit() {
                continue;
            }
            for sign in [&b""[..], b"-"] {
                if !signed && !sign.is_empty() {
                    continue;
                }
                let mut d = prefix.to_vec();
                d.extend_from_slice(sign);
                d.extend_from_slice(&b"123456789"[..k]);
                d.push(b);
                d.extend_from_slice(suffix);
                out.push(Doc::new(format!("~{name}|digits{k}+{b:#04x}"), d));
            }
        }
    }
    out
}

/// Comment text with every byte value in every lane: `prefix` + 12 filler bytes with byte b at
/// position k (all b, k) + LF + `suffix`. Block-wise line-end searches see every byte in every lane.
pub fn comment_byte_docs(name: &str, prefix: &[u8], suffix: &[u8]) -> Vec<Doc> {
    let mut out = Vec::new();
    for k in 0..12usize {
        for b in 0..=255u8 {
            if b == b'x' {
                continue;
            }
            let mut d = prefix.to_vec();
            let mut c = vec![b'x'; 12];
            c[k] = b;
            d.extend_from_slice(&c);
            d.push(b'\n');
            d.extend_from_slice(suffix);
            out.push(Doc::new(format!("~{name}|comment@{k}={b:#04x}"), d));
        }
    }
    out
}

/// Long offending tokens for the error-message paths (which quote and truncate what they found):
/// in every context, a token of `i` ASCII letters followed by a run of 1-, 2-, 3- or 4-byte UTF-8
/// characters or invalid bytes, with total lengths around the 60-byte quoting limit, so that every
/// cut position relative to a character boundary occurs.
pub fn long_token_docs(contexts: &[&[u8]]) -> Vec<Doc> {
    let fillers: [&[u8]; 6] = [b"a", b"\xff", "\u{e9}".as_bytes(), "\u{2713}".as_bytes(), "\u{1f600}".as_bytes(), b"\xf0\x9f"];
    let mut out = Vec::new();
    for ctx in contexts {
        for i in 0..=4usize {
            for f in fillers {
                for target in (18..=24).chain(54..=66) {
                    let mut t = vec![b'a'; i];
                    while t.len() < target {
                        t.extend_from_slice(f);
                    }
                    for tail in [&b""[..], b"\n", b" 0\n"] {
                        let mut d = ctx.to_vec();
                        d.extend_from_slice(&t);
                        d.extend_from_slice(tail);
                        out.push(Doc::new("long-token", d));
                    }
                }
            }
        }
    }
    out
}

/// All concatenations of up to `max_len` tokens.
pub fn token_sequences(tokens: &[&[u8]], max_len: usize) -> Vec<Doc> {
    let mut out = vec![Doc::new("seq:", Vec::new())];
    let mut level: Vec<Vec<u8>> = vec![Vec::new()];
    for _ in 0..max_len {
        let mut next = Vec::new();
        for p in &level {
            for t in tokens {
                let mut q = p.clone();
                q.extend_from_slice(t);
                next.push(q);
            }
        }
        for q in &next {
            out.push(Doc::new("seq", q.clone()));
        }
        level = next;
    }
    out
}

// ------------------------------------------------------------------------------------------------
// C05 with process isolation

/// Run the C05 sweep over `groups` = (label, subjects, documents) in isolated worker processes.
/// A worker that dies (abort on allocation failure, stack overflow, OOM kill) or stalls makes the
/// announced (subject, document) unit a violation instead of killing the harness.
pub fn c05_isolated(groups: &[(String, Vec<Box<dyn Subject>>, Vec<Doc>)], secs: f64, report: &mut Report) {
    let mut units: Vec<(usize, usize, usize)> = Vec::new();
    for (gi, (_, subs, docs)) in groups.iter().enumerate() {
        for (si, di) in c05_units(subs, docs) {
            units.push((gi, si, di));
        }
    }
    let run_unit = |i: usize, rep: &mut Report| {
        let (gi, si, di) = units[i];
        let doc = &groups[gi].2[di];
        c05_unit_as(groups[gi].1[si].as_ref(), &doc.bytes, doc.name.starts_with("repeat:"), rep);
        rep.states += 1;
        rep.nontrivial += 1;
    };
    if let Some(w) = crate::isolate::worker_spec() {
        let deadline = std::time::Instant::now() + std::time::Duration::from_secs_f64(secs);
        crate::isolate::run_worker(&w, units.len(), run_unit, Some(deadline));
    }
    let crashes = crate::isolate::run_parent(units.len(), crate::threads(), 8 << 20, 20.0, report);
    for c in crashes {
        let (gi, si, di) = units[c.unit];
        let subject = groups[gi].1[si].as_ref();
        let input = &groups[gi].2[di].bytes;
        let key = format!("{}/totality/abort-or-hang", family_of(subject));
        report.violation(key, format!("{} on {:?}: {} (abort / stack overflow / memory exhaustion / non-termination)", subject.name(), show(input), c.how), replay_json("C05", subject, input, &Spec::oneshot()), input.len() as u64);
    }
    for (label, subs, docs) in groups {
        report.count(&format!("{label}_documents"), docs.len() as u64);
        if report.caps.is_empty() {
            report.completed.push(format!("{label}: {} documents x {} subjects x {{one-shot, 1 byte per read with chunk 1}}, in isolated worker processes (8 GiB address space, 20 s stall limit)", docs.len(), subs.len()));
        }
    }
}

// ------------------------------------------------------------------------------------------------
// C10, parser half: stream a long generated document (never materialised) through a parser and
// measure the peak live heap of the parsing thread with the counting allocator.

/// `prefix`, then `period` repeated `repeats` times, then `suffix`; at most `grain` bytes per read.
pub struct GenSource {
    pub prefix: Vec<u8>,
    pub period: Vec<u8>,
    pub repeats: u64,
    pub suffix: Vec<u8>,
    pub grain: usize,
    pub pos: u64,
}

impl GenSource {
    pub fn total(&self) -> u64 {
        self.prefix.len() as u64 + self.period.len() as u64 * self.repeats + self.suffix.len() as u64
    }
    fn byte_at(&self, p: u64) -> u8 {
        let pl = self.prefix.len() as u64;
        let body = self.period.len() as u64 * self.repeats;
        if p < pl {
            self.prefix[p as usize]
        } else if p < pl + body {
            let idx = ((p - pl) % self.period.len() as u64) as usize;
            let b = self.period[idx];
            if b == b'#' {
                // a run of eight '#' stands for the number 10000000 + repetition index (always eight
                // digits): streams whose ids / variables / names never repeat
                let mut start = idx;
                while start > 0 && self.period[start - 1] == b'#' {
                    start -= 1;
                }
                let n = 10_000_000 + (p - pl) / self.period.len() as u64 % 89_000_000;
                let digits = format!("{n:08}");
                return digits.as_bytes()[(idx - start) % 8];
            }
            b
        } else {
            self.suffix[(p - pl - body) as usize]
        }
    }
}

impl std::io::Read for GenSource {
    fn read(&mut self, buf: &mut [u8]) -> std::io::Result<usize> {
        let left = self.total() - self.pos;
        let n = (buf.len().min(self.grain.max(1)) as u64).min(left) as usize;
        for (i, b) in buf[..n].iter_mut().enumerate() {
            *b = self.byte_at(self.pos + i as u64);
        }
        self.pos += n as u64;
        Ok(n)
    }
}

pub struct StreamCase {
    pub label: String,
    pub prefix: Vec<u8>,
    pub period: Vec<u8>,
    pub suffix: Vec<u8>,
    /// size of the largest single item (line / clause) in bytes
    pub max_item: usize,
}

/// Returns (peak heap bytes, items, clean end?)
pub fn stream_once(subject: &dyn Subject, case: &StreamCase, total_bytes: u64, chunk: usize, grain: usize) -> (usize, u64, End) {
    let repeats = total_bytes / case.period.len().max(1) as u64;
    // a run of eight '#' in the PREFIX stands for the number of repetitions (e.g. a header that
    // announces exactly the number of clauses that follow)
    let mut prefix = case.prefix.clone();
    if let Some(at) = prefix.windows(8).position(|w| w == b"########") {
        prefix.splice(at..at + 8, format!("{}", repeats).into_bytes()); // no leading zeros: AIGER forbids them
    }
    let src = GenSource { prefix, period: case.period.clone(), repeats, suffix: case.suffix.clone(), grain, pos: 0 };
    let mut items = 0u64;
    // an allocation failure aborts the process: the abort guard turns that into a verdict for this case
    let describe = || {
        (
            format!("{}/streaming-memory/abort", case.label),
            format!("{} streaming {} bytes (chunk {chunk}, {grain} bytes per read): the process aborted (allocation failure?)", subject.name(), total_bytes),
            json!({"property": "C10", "subject": subject.name(), "case": case.label, "bytes": total_bytes, "chunk": chunk, "grain": grain}),
        )
    };
    let _guard = crate::abortguard::enter(&describe);
    crate::alloc::start();
    let res = crate::subject::catch(|| {
        let mut reader = flussab::DeferredReader::from_read(src);
        reader.set_chunk_size(chunk);
        subject.run(reader, &mut |_item| items += 1)
    });
    let (peak, _) = crate::alloc::stop();
    let end = match res {
        Ok(e) => e,
        Err((m, l)) => End::Panic { msg: m, loc: l },
    };
    (peak, items, end)
}

/// A subject wrapper is not needed: `emit` receives a String per item; its allocation is part of the
/// harness, so the bound includes one item rendering (`item_slack`).
pub fn c10_streams(subjects: &[(Box<dyn Subject>, StreamCase)], tier: Tier, report: &mut Report) {
    let total: u64 = tier.pick(4 << 20, 256 << 20);
    let budget = Budget::new(tier.pick(240.0, 1200.0));
    let chunks: &[usize] = tier.pick(&[16, 256, 4096][..], &[16, 64, 256, 4096, 16384][..]);
    let mut units: Vec<(usize, usize, usize)> = Vec::new();
    for si in 0..subjects.len() {
        for &chunk in chunks {
            for grain in [1usize, (chunk / 2).max(1), chunk] {
                if grain == 1 && total > (64 << 20) {
                    continue; // byte-wise delivery of 256 MiB only for the quick size
                }
                units.push((si, chunk, grain));
            }
        }
    }
    let total_rep = crate::par::par_fold(
        units.len(),
        crate::threads(),
        Report::new,
        |acc, i| {
            let (si, chunk, grain) = units[i];
            let (subject, case) = &subjects[si];
            // wall-clock budget for the whole part: grid points not reached are a cap, never a verdict
            if budget.expired() {
                acc.not_exhaustive = true;
                acc.count("stream_grid_points_not_reached_within_the_time_budget", 1);
                if acc.caps.is_empty() {
                    acc.cap(format!("time budget of {:.0} s hit: some (case, chunk, grain) grid points were not streamed", budget.limit.as_secs_f64()));
                }
                return;
            }
            // two lengths: the bound must not depend on the number of bytes processed
            let mut peaks = Vec::new();
            for n in [total / 4, total] {
                let (peak, items, end) = stream_once(subject.as_ref(), case, n, chunk, grain);
                acc.evaluations += 1;
                acc.transitions += items;
                acc.states += 1;
                acc.nontrivial += 1;
                acc.count("bytes_streamed", n);
                acc.outcome(format!("{}:{}", case.label, end.kind()));
                // the harness renders each item into a String: allow a few of them
                let bound = 16 * chunk + 32 * case.max_item + 8192;
                acc.max(&format!("peak_heap_{}_chunk{}", case.label, chunk), peak as u64);
                peaks.push(peak);
                if !matches!(end, End::Clean) {
                    // The parser under test rejected (or panicked on) the generated stream: whether
                    // that is right is C01/C05/C07's question. Memory is judged on what ran; the
                    // unfinished grid point is a cap, not a verdict about C10.
                    acc.count("streams_not_parsed_to_a_clean_end", 1);
                    if acc.caps.len() < 4 {
                        acc.cap(format!("{} streaming {} bytes (chunk {chunk}, {grain} bytes per read) ended with {}: memory measured up to that point only", subject.name(), n, end.short()));
                    } else {
                        acc.not_exhaustive = true;
                    }
                }
                if peak > bound {
                    acc.violation(format!("{}/streaming-memory/bound", case.label), format!("{} streaming {} bytes (chunk {chunk}, {grain} bytes per read, items <= {} bytes): peak live heap {peak} bytes exceeds the bound {bound} = 16*chunk + 32*max_item + 8 KiB", subject.name(), n, case.max_item), json!({"property": "C10", "subject": subject.name(), "case": case.label, "bytes": n, "chunk": chunk, "grain": grain}), n);
                }
            }
            // slack: the harness renders each item (and the header, whose text is a digit longer for
            // the longer stream) into a String; anything kept per item shows as hundreds of kilobytes
            if peaks[1] > peaks[0] + 1024 {
                acc.violation(format!("{}/streaming-memory/grows-with-input", case.label), format!("{} (chunk {chunk}, {grain} bytes per read): peak heap {} bytes for {} input bytes but {} bytes for {}", subject.name(), peaks[0], total / 4, peaks[1], total), json!({"property": "C10", "subject": subject.name(), "case": case.label, "bytes": total, "chunk": chunk, "grain": grain}), total);
            }
        },
        |a, b| a.merge(b),
    );
    report.merge(total_rep);
    for (s, c) in subjects {
        report.completed.push(format!("{}: '{}' streamed at {} and {} bytes x chunk sizes {:?} x read grains {{1, chunk/2, chunk}}; peak live heap of the parsing thread <= 16*chunk + 32*max_item + 8 KiB and independent of the length", s.name(), c.label, total / 4, total, chunks));
    }
    report.sample(json!({"case": subjects[0].1.label, "period": show(&subjects[0].1.period), "bytes": total, "chunk": chunks[0], "grain": 1}));
}

pub fn c10_replay(subject: &dyn Subject, case: &StreamCase, v: &Value) -> (bool, String) {
    let n = v["bytes"].as_u64().unwrap();
    let chunk = v["chunk"].as_u64().unwrap() as usize;
    let grain = v["grain"].as_u64().unwrap() as usize;
    let (p1, _, e1) = stream_once(subject, case, n / 4, chunk, grain);
    let (p2, items, e2) = stream_once(subject, case, n, chunk, grain);
    let bound = 16 * chunk + 32 * case.max_item + 8192;
    let bad = !matches!(e2, End::Clean) || p2 > bound || p2 > p1 + 64;
    (bad, format!("{} streaming '{}' (chunk {chunk}, {grain} bytes per read): {} bytes -> peak {p1} ({}); {} bytes -> peak {p2}, {items} items ({}); bound {bound}\n", subject.name(), case.label, n / 4, e1.short(), n, e2.short()))
}


/// C01 addendum: the parser's public convenience constructors must give the reference observation.
pub fn c01_constructors(subject: &dyn Subject, docs: &[Doc], via: &dyn Fn(&[u8]) -> Vec<(&'static str, Vec<String>, End)>, report: &mut Report) {
    for d in docs {
        let reference = run_spec(subject, &d.bytes, &Spec::oneshot());
        for (name, items, end) in via(&d.bytes) {
            report.evaluations += 1;
            report.transitions += 1;
            if !(items == reference.items && end.same_outcome(&reference.end)) {
                let key = format!("{}/constructor/{name}", family_of(subject));
                report.violation(key, format!("{} built with {name} on {:?}: {} item(s) then {}; reference {}", subject.name(), show(&d.bytes), items.len(), end.short(), obs(&reference)), replay_json("C01", subject, &d.bytes, &Spec::oneshot()), d.bytes.len() as u64);
            }
        }
    }
}


/// All byte strings of length <= n over a small alphabet (family (a) of C05: arbitrary inputs).
pub fn all_strings(alphabet: &[u8], n: usize) -> Vec<Doc> {
    let mut out = vec![Doc::new("str", Vec::new())];
    let mut level: Vec<Vec<u8>> = vec![Vec::new()];
    for _ in 0..n {
        let mut next = Vec::with_capacity(level.len() * alphabet.len());
        for p in &level {
            for &c in alphabet {
                let mut q = p.clone();
                q.push(c);
                next.push(q);
            }
        }
        out.extend(next.iter().map(|q| Doc::new("str", q.clone())));
        level = next;
    }
    out
}

//! C08 exact-location clause for AIGER: single-token corruptions with unambiguous error position.

use mc_core::generic::{Corruption, Doc};

#[derive(Clone, Debug)]
pub struct Tok {
    pub start: usize,
    pub end: usize,
    pub line: usize,
    pub col: usize,
}

pub fn tokens_of(b: &[u8]) -> Vec<Tok> {
    let mut out = Vec::new();
    let (mut line, mut line_start) = (1usize, 0usize);
    let mut i = 0;
    while i < b.len() {
        if b[i] == b'\n' {
            line += 1;
            line_start = i + 1;
            i += 1;
        } else if b[i] == b' ' {
            i += 1;
        } else {
            let s = i;
            while i < b.len() && b[i] != b' ' && b[i] != b'\n' {
                i += 1;
            }
            out.push(Tok { start: s, end: i, line, col: s - line_start + 1 });
        }
    }
    out
}

fn splice(b: &[u8], t: &Tok, with: &[u8]) -> Vec<u8> {
    let mut v = b[..t.start].to_vec();
    v.extend_from_slice(with);
    v.extend_from_slice(&b[t.end..]);
    v
}

/// Base documents: numeric sections only (no symbols: a name is free text), M small so that every
/// two-digit number exceeds the literal limit.
pub fn corruptions(format: &str) -> Vec<Corruption> {
    let mut out = Vec::new();
    let huge = {
        let mut h = b"1".to_vec();
        h.extend(std::iter::repeat(b'0').take(40));
        h
    };
    let bases: Vec<Vec<u8>> = match format {
        "aag" => vec![b"aag 3 2 0 1 1\n2\n4\n6\n6 2 4\n".to_vec(), b"aag 4 1 2 1 1 1 1 1 1\n2\n4 8\n6 3 1\n8\n3\n5\n2\n6\n7\n2\n8 2 4\n".to_vec()],
        // text part of a binary file (the gates are appended after corruption)
        "aig" => vec![b"aig 3 2 0 1 1\n6\n".to_vec(), b"aig 4 1 2 1 1 1 1 1 1\n8\n3 1\n8\n3\n5\n2\n6\n7\n2\n".to_vec()],
        _ => vec![],
    };
    for base in bases {
        let toks = tokens_of(&base);
        let tail: &[u8] = if format == "aig" { b"\x02\x02" } else { b"" };
        for (i, t) in toks.iter().enumerate() {
            if i == 0 {
                // the format keyword
                let mut v = splice(&base, t, b"axg");
                v.extend_from_slice(tail);
                out.push(Corruption { doc: Doc::new(format!("{format}:keyword"), v), line: 1, col_first: 1, col_last: 3, what: "garbage format keyword".into() });
                continue;
            }
            let text = &base[t.start..t.end];
            let mut push = |what: &str, with: &[u8]| {
                let mut v = splice(&base, t, with);
                v.extend_from_slice(tail);
                out.push(Corruption { doc: Doc::new(format!("{format}:{what}@{i}"), v), line: t.line, col_first: t.col, col_last: t.col + with.len() - 1, what: format!("{what} at token #{i} ({:?})", String::from_utf8_lossy(text)) });
            };
            push("garbage token", b"x");
            push("overflowing number", &huge);
            push("number with leading zero", b"07");
            // counts (header fields except M and O) and literals are all limited by small numbers here
            let is_m = t.line == 1 && i == 1;
            // O, B, C, J, F count literals, not variables: any number is a legal count there
            let is_o = t.line == 1 && (i == 4 || i >= 6);
            // a justice property size is a count that is not limited by the header (99 is legal there)
            let justice_size_line = if format == "aag" { 8 } else { 7 };
            let is_justice_size = base.starts_with(b"aag 4") || base.starts_with(b"aig 4");
            let is_justice_size = is_justice_size && t.line == justice_size_line;
            if !is_m && !is_o && !is_justice_size {
                push("number out of range", b"99");
            }
        }
    }
    // symbol table: index beyond the section size; invalid UTF-8 inside a name
    let (pre, gates): (&[u8], &[u8]) = if format == "aag" { (b"aag 1 1 0 1 0\n2\n2\n", b"") } else { (b"aig 1 1 0 1 0\n2\n", b"") };
    let lines_before = pre.iter().filter(|&&b| b == b'\n').count();
    let mk = |sym: &[u8]| {
        let mut v = pre.to_vec();
        v.extend_from_slice(gates);
        v.extend_from_slice(sym);
        v
    };
    out.push(Corruption { doc: Doc::new(format!("{format}:symbol-index"), mk(b"i5 name\n")), line: lines_before + 1, col_first: 2, col_last: 2, what: "input symbol index beyond the input count".into() });
    out.push(Corruption { doc: Doc::new(format!("{format}:symbol-index-o"), mk(b"i0 a\no7 name\n")), line: lines_before + 2, col_first: 2, col_last: 2, what: "output symbol index beyond the output count".into() });
    out.push(Corruption { doc: Doc::new(format!("{format}:symbol-utf8"), mk(b"i0 na\xffme\n")), line: lines_before + 1, col_first: 6, col_last: 6, what: "invalid UTF-8 byte inside a symbol name".into() });
    out.push(Corruption { doc: Doc::new(format!("{format}:symbol-utf8-2"), mk(b"i0 ok\no0 \xc3(x\n")), line: lines_before + 2, col_first: 4, col_last: 5, what: "invalid UTF-8 sequence inside a symbol name".into() });
    out.push(Corruption { doc: Doc::new(format!("{format}:comment-utf8"), mk(b"c\nfirst\nse\xffcond\n")), line: lines_before + 3, col_first: 3, col_last: 3, what: "invalid UTF-8 byte inside the comment".into() });
    out.push(Corruption { doc: Doc::new(format!("{format}:symbol-kind"), mk(b"i0 a\nq0 name\n")), line: lines_before + 2, col_first: 1, col_last: 1, what: "unknown symbol kind".into() });
    if format == "aag" {
        out.push(Corruption { doc: Doc::new("aag:latch-initialization", b"aag 3 1 1 0 0\n2\n4 2 6\n".to_vec()), line: 3, col_first: 5, col_last: 5, what: "latch initialization literal that is neither 0, 1 nor the latch itself".into() });
        out.push(Corruption { doc: Doc::new("aag:latch-initialization-second", b"aag 3 1 2 0 0\n2\n4 2 1\n6 4 3\n".to_vec()), line: 4, col_first: 5, col_last: 5, what: "second latch with an invalid initialization literal".into() });
    }
    if format == "aig" {
        // line feeds inside the and-gate section are line ends like any other: errors behind them
        out.push(Corruption { doc: Doc::new("aig:lf-delta-then-symbol", b"aig 5 4 0 0 1\n\x0a\x00i0 x\ni9 y\n".to_vec()), line: 4, col_first: 2, col_last: 2, what: "symbol index out of range after a gate whose first delta is the byte 0x0a".into() });
        out.push(Corruption { doc: Doc::new("aig:lf-delta-then-symbol-same-line", b"aig 5 4 0 0 1\n\x0a\x00i9 x\n".to_vec()), line: 3, col_first: 3, col_last: 3, what: "symbol index out of range directly behind gate bytes 0x0a 0x00".into() });
        out.push(Corruption { doc: Doc::new("aig:lf-second-delta", b"aig 12 11 0 0 1\n\x02\x0aq\n".to_vec()), line: 3, col_first: 1, col_last: 1, what: "garbage behind a gate whose second delta is the byte 0x0a".into() });
        out.push(Corruption { doc: Doc::new("aig:lf-delta-then-bad-delta", b"aig 12 10 0 0 2\n\x0a\x01\x7f\x00".to_vec()), line: 3, col_first: 2, col_last: 2, what: "second gate's delta too large, after a gate with an 0x0a delta".into() });
        // binary section: delta larger than the reference code, over-long varint
        // a two-byte delta whose final byte is 0x0a (value 1280), then errors on later lines
        out.push(Corruption { doc: Doc::new("aig:lf-in-two-byte-delta-then-symbol", b"aig 700 699 0 0 1\n\x80\x0a\x02i0 x\ni999 y\n".to_vec()), line: 4, col_first: 2, col_last: 4, what: "symbol index out of range after a gate whose first delta is encoded as 0x80 0x0a".into() });
        out.push(Corruption { doc: Doc::new("aig:lf-in-two-byte-second-delta", b"aig 1400 1399 0 0 1\n\x02\x80\x0aq\n".to_vec()), line: 3, col_first: 1, col_last: 1, what: "garbage behind a gate whose second delta is encoded as 0x80 0x0a".into() });
        out.push(Corruption { doc: Doc::new("aig:lf-in-three-byte-delta-then-bad-delta", b"aig 90000 89998 0 0 2\n\x80\x80\x0a\x02\xff\xff\x7f\x00".to_vec()), line: 3, col_first: 2, col_last: 4, what: "second gate's delta too large, after a gate with a delta encoded as 0x80 0x80 0x0a".into() });
        out.push(Corruption { doc: Doc::new("aig:latch-initialization", b"aig 3 1 1 0 0\n2 6\n".to_vec()), line: 2, col_first: 3, col_last: 3, what: "latch initialization literal that is neither 0, 1 nor the latch itself".into() });
        out.push(Corruption { doc: Doc::new("aig:latch-initialization-second", b"aig 3 1 2 0 0\n2 1\n4 3\n".to_vec()), line: 3, col_first: 3, col_last: 3, what: "second latch with an invalid initialization literal".into() });
        out.push(Corruption { doc: Doc::new("aig:delta-too-large", b"aig 3 2 0 1 1\n6\n\x08\x02".to_vec()), line: 3, col_first: 1, col_last: 1, what: "first delta larger than the gate's own code".into() });
        out.push(Corruption { doc: Doc::new("aig:delta2-too-large", b"aig 3 2 0 1 1\n6\n\x02\x06".to_vec()), line: 3, col_first: 2, col_last: 2, what: "second delta larger than the first input code".into() });
        out.push(Corruption { doc: Doc::new("aig:overlong-varint", b"aig 3 2 0 1 1\n6\n\x02\x80\x80\x80\x80\x80\x80\x80\x80\x80\x80\x80\x00".to_vec()), line: 3, col_first: 2, col_last: 13, what: "over-long 7-bit code".into() });
    }
    out
}

//! CPU time instead of wall time for every verdict that depends on a time limit: a heavily loaded
//! machine must not turn "slow" into a violation.

#[repr(C)]
struct Timespec {
    tv_sec: i64,
    tv_nsec: i64,
}

extern "C" {
    fn clock_gettime(clk: i32, ts: *mut Timespec) -> i32;
    fn sysconf(name: i32) -> i64;
}

const CLOCK_THREAD_CPUTIME_ID: i32 = 3;
const SC_CLK_TCK: i32 = 2;

/// CPU seconds consumed by the calling thread so far.
pub fn thread_cpu_secs() -> f64 {
    let mut ts = Timespec { tv_sec: 0, tv_nsec: 0 };
    let rc = unsafe { clock_gettime(CLOCK_THREAD_CPUTIME_ID, &mut ts) };
    if rc != 0 {
        return 0.0;
    }
    ts.tv_sec as f64 + ts.tv_nsec as f64 * 1e-9
}

/// CPU seconds (user + system, all threads) consumed so far by the process `pid`; `None` when the
/// process is gone or /proc is unreadable.
pub fn process_cpu_secs(pid: u32) -> Option<f64> {
    let stat = std::fs::read_to_string(format!("/proc/{pid}/stat")).ok()?;
    // the command name (field 2) may contain blanks: fields are counted after the closing parenthesis
    let rest = &stat[stat.rfind(')')? + 1..];
    let f: Vec<&str> = rest.split_whitespace().collect();
    // rest starts with field 3 (state); utime and stime are fields 14 and 15
    let utime: f64 = f.get(11)?.parse().ok()?;
    let stime: f64 = f.get(12)?.parse().ok()?;
    let tck = unsafe { sysconf(SC_CLK_TCK) };
    let tck = if tck > 0 { tck as f64 } else { 100.0 };
    Some((utime + stime) / tck)
}

#[cfg(test)]
mod tests {
    #[test]
    fn cpu_time_moves() {
        let a = super::thread_cpu_secs();
        let mut x = 0u64;
        let mut i = 0u64;
        while super::thread_cpu_secs() - a < 0.05 {
            i += 1;
            x = x.wrapping_mul(31).wrapping_add(i);
        }
        std::hint::black_box(x);
        assert!(super::thread_cpu_secs() - a >= 0.05);
        assert!(super::process_cpu_secs(std::process::id()).unwrap() >= 0.04);
        assert!(super::process_cpu_secs(u32::MAX - 7).is_none());
    }
}

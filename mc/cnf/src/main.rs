//! Harness binary for the DIMACS-family parsers (flussab-cnf).
mod c03;
mod c06;
mod c07;
mod catalogue;
mod gen;
mod subjects;
mod typed;

use mc_core::generic::{self, C01Params, C04Params, Corruption};
use mc_core::report::{parse_cli, write_out, Report};
use mc_core::subject::Subject;
use mc_core::{Budget, Tier, Value};

#[global_allocator]
static ALLOC: mc_core::alloc::Counting = mc_core::alloc::Counting;

fn lits_for(tier: Tier) -> Vec<&'static str> {
    tier.pick(vec!["i32", "i8"], subjects::LITS.to_vec())
}

fn flags_for(kind: &str, tier: Tier) -> Vec<bool> {
    if kind == "log" || tier == Tier::Thorough {
        vec![false, true]
    } else {
        vec![false, true]
    }
}

fn long_contexts(kind: &str) -> Vec<&'static [u8]> {
    match kind {
        "cnf" => vec![b"", b"p cnf 2 2\n", b"p cnf 2 2\n1 ", b"p "],
        "wcnf" => vec![b"", b"p wcnf 2 2 3\n", b"p wcnf 2 2 3\n1 ", b"p wcnf "],
        "gcnf" => vec![b"", b"p gcnf 2 2 2\n", b"p gcnf 2 2 2\n{1} ", b"{"],
        _ => vec![b"", b"s ", b"v ", b"v 1 ", b"s SATISFIABLE\n"],
    }
}

/// Repetition family (C05): one construct repeated N times at every position where the grammar
/// loops - comment lines, blank lines (LF and CRLF), blanks, continuation lines of one clause,
/// clauses, value lines, unknown lines. Per-repetition stack frames (recursion instead of a loop)
/// or retained allocations show as a stack overflow / heap bound violation.
fn repetition_docs(kind: &str, n: usize) -> Vec<generic::Doc> {
    let (header, clause, open): (&[u8], &[u8], &[u8]) = match kind {
        "cnf" => (b"p cnf 1 1\n", b"1 0\n", b""),
        "wcnf" => (b"p wcnf 1 1 9\n", b"5 1 0\n", b"5 "),
        "gcnf" => (b"p gcnf 1 1 1\n", b"{1} 1 0\n", b"{1} "),
        _ => (b"s SATISFIABLE\n", b"v 1 0\n", b"v "),
    };
    let mut v = Vec::new();
    let fillers: [(&str, &[u8]); 7] = [("comment", b"c x\n"), ("bare-comment", b"c\n"), ("blank", b"\n"), ("crlf-blank", b"\r\n"), ("space", b" "), ("tab-blank", b"\t\n"), ("crlf-comment", b"c x\r\n")];
    for (fname, filler) in fillers {
        // in front of everything, between header and first statement, behind the last statement
        v.push(generic::repeat_doc(&format!("{kind}/{fname}/front"), b"", filler, n, &[header, clause].concat()));
        v.push(generic::repeat_doc(&format!("{kind}/{fname}/after-header"), header, filler, n, clause));
        v.push(generic::repeat_doc(&format!("{kind}/{fname}/trailer"), &[header, clause].concat(), filler, n, b""));
        v.push(generic::repeat_doc(&format!("{kind}/{fname}/headerless-trailer"), clause, filler, n, b""));
        // inside an open clause / value line
        v.push(generic::repeat_doc(&format!("{kind}/{fname}/in-clause"), &[header, open, b"1"].concat(), filler, n, b" 0\n"));
    }
    // continuation lines of one clause, many clauses / value lines, unknown lines
    v.push(generic::repeat_doc(&format!("{kind}/continuation-lines"), &[header, open].concat(), b"1\n", n, b"0\n"));
    v.push(generic::repeat_doc(&format!("{kind}/continuation-lines-headerless"), open, b"-1\n", n, b"0\n"));
    v.push(generic::repeat_doc(&format!("{kind}/statements"), b"", clause, n, b""));
    v.push(generic::repeat_doc(&format!("{kind}/literals"), open, b"1 ", n, b"0\n"));
    if kind == "log" {
        v.push(generic::repeat_doc("log/unknown-lines", b"", b"x\n", n, b"s UNSATISFIABLE\n"));
        v.push(generic::repeat_doc("log/value-lines", b"s SATISFIABLE\n", b"v 1\n", n, b"v 0\n"));
        v.push(generic::repeat_doc("log/status-lines", b"", b"s UNKNOWN\n", n, b""));
    }
    v
}

/// C08, "go on after an error": a caller that reports a syntax error and simply asks the same
/// streaming parser for the next item again. Every FURTHER syntax error is a syntax error like the
/// first and has to designate a position inside the input (in-range clause); a panic is a violation.
fn go_on_after_error(kind: &str, docs: &[generic::Doc], report: &mut Report) {
    use flussab_cnf::{cnf, gcnf, wcnf, InnerParseError, ParseError};
    fn judge(kind: &str, input: &[u8], errs: Vec<ParseError>, panicked: Option<String>, acc: &mut Report) {
        let breaks: Vec<usize> = input.iter().enumerate().filter(|(_, b)| **b == b'\n').map(|(i, _)| i).collect();
        acc.evaluations += 1;
        acc.transitions += errs.len() as u64;
        if errs.len() > 1 {
            acc.nontrivial += 1;
        }
        if let Some(m) = panicked {
            let replay = mc_core::json!({"property": "C08", "go_on": kind, "input_hex": mc_core::hex(input)});
            acc.violation_with(&format!("{kind}/location/go-on/panic"), input.len() as u64, || (format!("{kind}<i32> on {:?}: asking again after a syntax error panicked: {m}", mc_core::show(input)), replay));
            return;
        }
        for (k, e) in errs.into_iter().enumerate().skip(1) {
            if let InnerParseError::SyntaxError(se) = *e {
                if let Err(why) = generic::location_in_range(input, &breaks, se.location.line, se.location.column) {
                    let replay = mc_core::json!({"property": "C08", "go_on": kind, "input_hex": mc_core::hex(input)});
                    acc.violation_with(&format!("{kind}/location/go-on/out-of-range"), input.len() as u64, || (format!("{kind}<i32> on {:?}: syntax error #{} after going on ({}) at {}:{}: {why}", mc_core::show(input), k + 1, se.msg, se.location.line, se.location.column), replay));
                    return;
                }
            }
        }
    }
    let total = mc_core::par::par_fold(
        docs.len(),
        mc_core::threads(),
        Report::new,
        |acc, i| {
            let input: &[u8] = &docs[i].bytes;
            macro_rules! drive {
                ($parser:expr) => {{
                    let mut errs: Vec<ParseError> = Vec::new();
                    let r = mc_core::subject::catch(|| {
                        let mut errs: Vec<ParseError> = Vec::new();
                        match $parser {
                            Err(e) => errs.push(e),
                            Ok(mut p) => {
                                for _ in 0..64 {
                                    match p.next_clause() {
                                        Ok(Some(_)) => {}
                                        Ok(None) => break,
                                        Err(e) => {
                                            errs.push(e);
                                            if errs.len() >= 5 {
                                                break;
                                            }
                                        }
                                    }
                                }
                            }
                        }
                        errs
                    });
                    let panicked = match r {
                        Ok(e) => {
                            errs = e;
                            None
                        }
                        Err((m, l)) => Some(format!("{m} @ {l}")),
                    };
                    if !errs.is_empty() || panicked.is_some() {
                        judge(kind, input, errs, panicked, acc);
                    }
                }};
            }
            match kind {
                "cnf" => drive!(cnf::Parser::<i32>::from_read(input, cnf::Config::default())),
                "wcnf" => drive!(wcnf::Parser::<i32>::from_read(input, wcnf::Config::default())),
                "gcnf" => drive!(gcnf::Parser::<i32>::from_read(input, gcnf::Config::default())),
                _ => {}
            }
            acc.states += 1;
        },
        |a, b| a.merge(b),
    );
    report.merge(total);
    report.completed.push(format!("{kind}: go on after an error - the streaming parser is asked again (up to 64 calls / 5 errors) after every syntax error on {} documents; every further syntax error must lie inside the input", docs.len()));
}

/// Long offending tokens as light-schedule documents for the chunking checks.
fn long_token_light(kind: &str) -> Vec<generic::Doc> {
    generic::long_token_docs(&long_contexts(kind)).into_iter().map(|d| generic::Doc::new(format!("~{}", d.name), d.bytes)).collect()
}

fn main() {
    mc_core::subject::install_quiet_panic_hook();
    let cli = parse_cli();
    let t0 = std::time::Instant::now();
    if cli.cmd != "replay" && mc_core::isolate::worker_spec().is_none() {
        mc_core::abortguard::install(cli.out.clone(), &cli.cmd, "cnf", cli.tier.name());
    }
    let tier = cli.tier;
    if cli.cmd == "replay" {
        let text = std::fs::read_to_string(cli.file.as_ref().expect("replay needs a file")).unwrap();
        let v: Value = mc_core::serde_json::from_str(&text).unwrap();
        let v = if v.get("replay").is_some() { v["replay"].clone() } else { v };
        if let Some(kind) = v["go_on"].as_str() {
            // C08 "go on after an error": re-run the one document
            let mut r = Report::new();
            let input = mc_core::unhex(v["input_hex"].as_str().unwrap());
            go_on_after_error(kind, &[generic::Doc::new("replay", input)], &mut r);
            let text: String = r.violations.values().map(|x| format!("  {}\n", x.what)).collect();
            println!("go on after an error ({kind}):\n{text}");
            println!("{}", if r.violation_count > 0 { "REPLAY: property violated" } else { "REPLAY: property holds" });
            std::process::exit(if r.violation_count > 0 { 1 } else { 0 });
        }
        let subject = subjects::by_name(v["subject"].as_str().unwrap());
        let (violated, text) = match v["property"].as_str().unwrap_or("") {
            "C03" => c03::replay(&v),
            "C06" => c06::replay(&v),
            "C07" => c07::replay(&v),
            "C01" => generic::c01_replay(subject.as_ref(), &v),
            "C04" => generic::c04_replay(subject.as_ref(), &v),
            "C05" => generic::c05_replay(subject.as_ref(), &v),
            "C08" => generic::c08_replay(subject.as_ref(), &v),
            "C09" => generic::c09_replay(subject.as_ref(), &v),
            "C10" => {
                let cases = c10_cases();
                let (_, case) = cases.into_iter().find(|(_, c)| c.label == v["case"].as_str().unwrap()).expect("unknown stream case");
                generic::c10_replay(subject.as_ref(), &case, &v)
            }
            other => {
                eprintln!("mc-cnf: cannot replay property {other:?}");
                std::process::exit(2);
            }
        };
        println!("{text}");
        println!("{}", if violated { "REPLAY: property violated" } else { "REPLAY: property holds" });
        std::process::exit(if violated { 1 } else { 0 });
    }
    let mut report = Report::new();
    let budget = Budget::new(tier.pick(40.0, 1500.0));
    let rule: String = match cli.cmd.as_str() {
        "C01" => {
            for kind in subjects::KINDS {
                let subs = subjects::subjects(kind, &lits_for(tier), &flags_for(kind, tier));
                let inp = gen::inputs(kind, tier);
                let params = C01Params {
                    all_len: tier.pick(9, 12),
                    dev_bound: 2,
                    dev_interrupts: 1,
                    dev2_max_len: tier.pick(48, 120),
                    uni: tier.pick(vec![1, 2, 3, 7, 8, 9], (1..=17).collect()),
                    chunks: tier.pick(vec![Some(1), Some(3), Some(8), None], vec![Some(1), Some(2), Some(3), Some(7), Some(8), Some(9), Some(16), None]),
                };
                let mut docs = inp.all();
                docs.extend(long_token_light(kind));
                report.count(&format!("{kind}_documents"), docs.len() as u64);
                report.count(&format!("{kind}_subjects"), subs.len() as u64);
                generic::c01(&subs, &docs, &params, &budget, &mut report);
                if !budget.expired() {
                    report.completed.push(format!("{kind}: {} documents (corpus {}, single-edit neighbours {}, token sequences {}) x {} subjects: ALL(n<={}) + DEV({}) with <=1 Interrupted + UNI{:?} x chunks {:?}", docs.len(), inp.corpus.len(), inp.neighbours.len(), inp.sequences.len(), subs.len(), params.all_len, params.dev_bound, params.uni, params.chunks));
                }
                sample_docs(&mut report, kind, &inp.corpus);
                if kind != "log" {
                    let reference = subjects::make(kind, "i32", false);
                    let small: Vec<generic::Doc> = inp.corpus.iter().cloned().chain(inp.neighbours.iter().filter(|d| d.bytes.len() <= 24).cloned()).collect();
                    generic::c01_constructors(reference.as_ref(), &small, &|b| subjects::via_constructors(kind, b), &mut report);
                }
            }
            report.traces = report.evaluations;
            "inputs = hand-written corpus of well-formed documents per parser + all their single-edit neighbours (every truncation, every byte deleted, every byte replaced by each of 8 marker bytes) + all concatenations of up to 2 (quick) / 3 (thorough) tokens of a per-format token alphabet, deduplicated; schedules = every composition of the input into reads (with up to one Interrupted anywhere) for short inputs, all schedules with a bounded number of deviations from the one-shot schedule for longer ones, and uniform grains x chunk sizes; every execution compared with the one-shot execution. Non-trivial = at least two successful reads (a refill happened mid-document)".into()
        }
        "C04" => {
            for kind in subjects::KINDS {
                let subs = subjects::subjects(kind, &tier.pick(vec!["i32"], subjects::LITS.to_vec()), &flags_for(kind, tier));
                let inp = gen::inputs(kind, tier);
                let mut docs = inp.corpus.clone();
                if tier == Tier::Thorough {
                    docs.extend(inp.neighbours.iter().cloned());
                } else {
                    // truncations and garbage neighbours of the two shortest well-formed documents
                    docs.extend(inp.neighbours.iter().filter(|d| d.bytes.len() <= 30).cloned());
                }
                docs.extend(inp.sequences.iter().filter(|d| d.bytes.len() <= 12).cloned());
                let docs = generic::dedup_docs(docs);
                let params = C04Params { max_len: tier.pick(120, 400), uni: vec![1, 3], dev_bound: 1, dev_max_len: tier.pick(40, 120) };
                report.count(&format!("{kind}_documents"), docs.len() as u64);
                generic::c04(&subs, &docs, &params, &budget, &mut report);
                if !budget.expired() {
                    report.completed.push(format!("{kind}: {} documents x {} subjects x every fault offset 0..=len x {{one-shot, UNI(1), UNI(3) (chunk default and =grain), all single cuts for len<={}}}", docs.len(), subs.len(), params.dev_max_len));
                }
                sample_docs(&mut report, kind, &inp.corpus);
            }
            report.traces = report.evaluations;
            "every document x every fault offset k in 0..=len (the source delivers k bytes, then fails permanently) x schedules of the delivered prefix; compared with the fault-free run. Non-trivial = fault offset strictly inside a token or at the very end (after a construct that accepts end of input)".into()
        }
        "C05" => {
            let mut groups = Vec::new();
            for kind in subjects::KINDS {
                let subs = subjects::subjects(kind, &lits_for(tier), &flags_for(kind, tier));
                if generic::deep_profile() {
                    // unoptimised build: the repetition family only (see generic::deep_profile)
                    groups.push((format!("{kind}-repetitions"), subjects::subjects(kind, &["i32"], &flags_for(kind, tier)), repetition_docs(kind, 300_000)));
                    continue;
                }
                groups.push((format!("{kind}-repetitions"), subjects::subjects(kind, &["i32"], &flags_for(kind, tier)), repetition_docs(kind, tier.pick(100_000, 300_000))));
                let inp = gen::inputs_seq(kind, tier, tier.pick(3, 4));
                sample_docs(&mut report, kind, &inp.sequences);
                let mut docs = inp.all();
                // extreme decimal numbers at every number position (the C06 boundary documents)
                docs.extend(c06::cases(kind, tier).into_iter().map(|c| generic::Doc::new("boundary", c.doc)));
                let contexts = long_contexts(kind);
                docs.extend(generic::long_token_docs(&contexts));
                groups.push((kind.to_string(), subs, generic::dedup_docs(docs)));
            }
            generic::c05_isolated(&groups, tier.pick(40.0, 1500.0), &mut report);
            report.traces = report.evaluations;
            "every document of the generated families x every subject x {one-shot, byte-wise}, each (subject, document) unit run in an isolated single-threaded worker process: the run must return a value (no panic incl. overflow / debug assertion in the checked build, no abort, no stack overflow, no hang), within 2 s, with peak requested heap <= 64 x consumed bytes + 2 MiB + 4 chunks (counting allocator, per thread). Non-trivial: every case (each is a distinct input x subject). Repetition family: one construct (comment line, blank line, CRLF, blanks, continuation line, clause, value line, unknown line) repeated 100 000 - 300 000 times at every looping position; the quick tier runs it in the UNOPTIMISED profile as well (opt-level 0: recursion that an optimiser turns into a loop overflows the stack only there)".into()
        }
        "C08" => {
            for kind in subjects::KINDS {
                // both settings of ignore_header / ignore_unknown_lines for the in-range clause; the
                // exact-location catalogue needs the header to be enforced (flag false), except for the
                // solver log, which has its own catalogue with skipped unknown lines for flag true
                let subs = subjects::subjects(kind, &lits_for(tier), &[false, true]);
                let inp = gen::inputs(kind, tier);
                let docs = inp.all();
                if kind != "log" {
                    let mut more = docs.clone();
                    // documents with several corrupted tokens on different lines
                    for t in [&b"p cnf 3 4\n1 X 0\n2 -3 Y\n3 0\n-1 Z 2 0\n"[..], b"p wcnf 3 3 9\n4 1 X 0\n5 2 -3 Y\n9 3 0\n", b"p gcnf 3 3 2\n{1} 1 X 0\n{2} 2 -3 Y\n{0} 3 0\n", b"1 X 0\nY\n\nZ 0\n", b"c x\nX\nc y\nY\n1 0\nZ", b"1 2\nX\n3 0\nY 0\n"] {
                        more.push(generic::Doc::new("multi-error", t.to_vec()));
                    }
                    go_on_after_error(kind, &more, &mut report);
                }
                let mut pairs: Vec<(usize, Corruption)> = Vec::new();
                for flag in [false, true] {
                    if flag && kind != "log" {
                        continue;
                    }
                    let cat = catalogue::corruptions_flag(kind, flag);
                    report.count(&format!("{kind}_corruptions_flag_{flag}"), cat.len() as u64);
                    for c in cat {
                        for si in 0..subs.len() {
                            if subs[si].name().ends_with("=true") != flag {
                                continue;
                            }
                            pairs.push((si, Corruption { doc: c.doc.clone(), line: c.line, col_first: c.col_first, col_last: c.col_last, what: c.what.clone() }));
                        }
                    }
                }
                generic::c08(&subs, &docs, &pairs, tier, &budget, &mut report);
                report.completed.push(format!("{kind}: in-range clause on {} documents x {} subjects x schedules; exact-location clause on {} (corruption, subject) pairs", docs.len(), subs.len(), pairs.len()));
                sample_docs(&mut report, kind, &inp.corpus);
            }
            report.traces = report.evaluations;
            "(a) every generated document x subject x {one-shot, byte-wise with chunk 1, 3 bytes with chunk 3, byte-wise, 7 bytes with chunk 16}: a reported syntax error must lie inside the input (1<=line<=lines+1, 1<=column<=len(line)+1); (b) well-formed base documents x every token x catalogue {garbage token, overflowing number, literal/group out of range, missing separator, clause count off by one}: line = the token's line, column on the token. Non-trivial = runs ending in a syntax error".into()
        }
        "C09" => {
            for kind in ["cnf", "wcnf", "gcnf"] {
                let subs = subjects::subjects(kind, &tier.pick(vec!["i32"], vec!["i8", "i32", "isize"]), &[false, true]);
                let inp = gen::inputs(kind, tier);
                let mut docs = inp.corpus.clone();
                docs.extend(c07::renderings_d1(kind));
                let docs = generic::dedup_docs(docs);
                generic::c09(&subs, &docs, tier, &budget, &mut report);
                generic::c09_finish();
                report.completed.push(format!("{kind}: {} documents (corpus + every layout rendering with at most one non-default slot of three formulas) x {} streaming subjects, line gated source, DEV(1..2) x chunk sizes", docs.len(), subs.len()));
                sample_docs(&mut report, kind, &inp.corpus);
            }
            report.traces = report.evaluations;
            "every well-formed corpus document x streaming subject, delivered by a source that hands out at most the rest of the current line per read (choice: any shorter amount; deviation bounded) x chunk sizes; at the moment each item is returned the source must not have been asked beyond the line that completes the item (completing line = line containing the end of the shortest prefix on which the parser, given end of input, returns the same item)".into()
        }
        "C03" => {
            c03::run(tier, &mut report, &|kind| gen::inputs_seq(kind, tier, tier.pick(3, 4)).all());
            c03::RULE.into()
        }
        "C06" => {
            c06::run(tier, &mut report, &|kind| gen::inputs_seq(kind, tier, tier.pick(3, 4)).all());
            c06::RULE.into()
        }
        "C07" => {
            c07::run(tier, &mut report);
            c07::RULE.into()
        }
        "C10" => {
            generic::c10_streams(&c10_cases(), tier, &mut report);
            report.traces = report.evaluations;
            "parser half: documents generated on the fly (never materialised) streamed through the cnf / wcnf / gcnf parsers at two lengths (N/4 and N; N = 4 MiB quick, 256 MiB thorough) x chunk sizes x read grains; the peak live heap of the parsing thread (counting allocator) must stay below 16*chunk + 32*max_item + 8 KiB and must not grow with the length".into()
        }
        other => {
            eprintln!("mc-cnf: unknown property {other:?}");
            std::process::exit(2);
        }
    };
    let v = report.to_json(&cli.cmd, "cnf", tier.name(), t0.elapsed().as_secs_f64(), &rule);
    write_out(&cli, &v);
}

fn c10_cases() -> Vec<(Box<dyn Subject>, generic::StreamCase)> {
    let case = |label: &str, prefix: &[u8], period: &[u8], suffix: &[u8], max_item: usize| generic::StreamCase { label: label.into(), prefix: prefix.to_vec(), period: period.to_vec(), suffix: suffix.to_vec(), max_item };
    vec![
        (subjects::make("cnf", "i32", false), case("cnf", b"p cnf 99 0\n", b"1 -2 3 0\n-99 0\nc a comment line\n4 5\n-6 0\n\n", b"", 24)),
        (subjects::make("cnf", "i64", true), case("cnf-headerless", b"", b"12345678 -123456789 0\n7 0\n", b"1 0", 24)),
        (subjects::make("wcnf", "i32", false), case("wcnf", b"p wcnf 9 0 100\n", b"5 1 -2 0\n18446744073709551615 -9 0\nc x\n", b"", 32)),
        (subjects::make("gcnf", "i32", false), case("gcnf", b"p gcnf 9 0 7\n", b"{1} 1 -2 0\n{7} -9 0\n", b"", 16)),
        (subjects::make("cnf", "i32", false), case("cnf-blank-line-run", b"", b"\n", b"1 0\n", 8)),
        (subjects::make("gcnf", "i32", true), case("gcnf-crlf-blank-run", b"p gcnf 1 1 1\r\n", b"\r\n \r\n", b"{1} 1 0\r\n", 8)),
        (subjects::make("cnf", "i32", false), case("cnf-comment-run", b"p cnf 1 1\n", b"c a comment line\n", b"1 0\n", 20)),
        (subjects::make("wcnf", "i32", true), case("wcnf-blank-and-comment-run", b"", b"c x\n\n \t\n", b"3 1 0\n", 12)),
        (subjects::make("cnf", "i32", false), case("cnf-split-clause-comments", b"1\n", b"c inside a clause\n\n", b"0\n", 20)),
        // a long trailer of comment and blank lines behind the last announced clause
        (subjects::make("cnf", "i32", false), case("cnf-trailer-after-announced-clauses", b"p cnf 3 2\n1 -3 0\n2 3 -1 0\n", b"c trailer comment\n\n", b"", 20)),
        (subjects::make("wcnf", "i32", false), case("wcnf-trailer-after-announced-clauses", b"p wcnf 3 1 9\n5 1 -3 0\n", b"c trailer\n \n", b"", 20)),
        (subjects::make("gcnf", "i32", false), case("gcnf-trailer-after-announced-clauses", b"p gcnf 3 1 2\n{1} 1 -3 0\n", b"\nc trailer\n", b"", 20)),
        // variables, weights and groups that never repeat: nothing may be remembered per clause
        (subjects::make("cnf", "i32", false), case("cnf-distinct-variables", b"p cnf 99999999 0\n", b"######## -######## 0\n", b"", 24)),
        (subjects::make("wcnf", "i64", true), case("wcnf-distinct-weights", b"", b"######## ######## -1 0\n", b"", 24)),
        (subjects::make("gcnf", "i32", false), case("gcnf-distinct-groups", b"p gcnf 99999999 0 99999999\n", b"{########} ######## 0\n", b"", 24)),
        // a header that announces exactly the (large) number of clauses that follow: more than 2^20
        // empty clauses in the longer run
        (subjects::make("cnf", "i32", false), case("cnf-announced-clause-count", b"p cnf 9 ########\n", b"0\n", b"", 12)),
        (subjects::make("wcnf", "i32", false), case("wcnf-announced-clause-count", b"p wcnf 9 ######## 99\n", b"5 0\n", b"", 12)),
        (subjects::make("gcnf", "i32", false), case("gcnf-announced-clause-count", b"p gcnf 9 ######## 3\n", b"{1} 0\n", b"", 12)),
        // large DECLARED counts with small items: memory must not follow the header's numbers
        (subjects::make("cnf", "i32", false), case("cnf-large-declared-variable-count", b"p cnf 20000000 0\n", b"1 -2 3 0\n-20000000 0\n", b"", 16)),
        (subjects::make("wcnf", "i64", false), case("wcnf-large-declared-counts", b"p wcnf 20000000 0 18446744073709551615\n", b"5 1 -2 0\n7 -20000000 0\n", b"", 16)),
        (subjects::make("gcnf", "i32", false), case("gcnf-large-declared-counts", b"p gcnf 20000000 0 20000000\n", b"{1} 1 -2 0\n{20000000} -9 0\n", b"", 20)),
    ]
}

fn sample_docs(report: &mut Report, kind: &str, docs: &[mc_core::generic::Doc]) {
    for d in docs.iter().skip(1).take(1) {
        report.sample(mc_core::json!({"family": kind, "document": d.name, "bytes": mc_core::show(&d.bytes)}));
    }
}

#[allow(dead_code)]
fn unused(_: &dyn Subject) {}

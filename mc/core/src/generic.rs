// generic cross-format property drivers (filled in later)

//! C08 exact-location clause for BTOR2.

use mc_core::generic::{Corruption, Doc};

struct Tok {
    start: usize,
    end: usize,
    line: usize,
    col: usize,
}

fn tokens_of(b: &[u8]) -> Vec<Tok> {
    let mut out = Vec::new();
    let (mut line, mut line_start) = (1usize, 0usize);
    let mut i = 0;
    while i < b.len() {
        if b[i] == b'\n' {
            line += 1;
            line_start = i + 1;
            i += 1;
        } else if b[i] == b' ' {
            i += 1;
        } else {
            let s = i;
            while i < b.len() && b[i] != b' ' && b[i] != b'\n' {
                i += 1;
            }
            out.push(Tok { start: s, end: i, line, col: s - line_start + 1 });
        }
    }
    out
}

pub fn corruptions() -> Vec<Corruption> {
    let mut out = Vec::new();
    let huge = {
        let mut h = b"1".to_vec();
        h.extend(std::iter::repeat(b'0').take(40));
        h
    };
    // no symbols / comments: every token is a required token
    let bases: Vec<Vec<u8>> = vec![
        b"1 sort bitvec 8\n2 input 1\n3 add 1 2 2\n4 bad 3\n".to_vec(),
        b"1 sort bitvec 1\n2 sort array 1 1\n3 state 2\n4 one 1\n5 ite 1 4 4 4\n6 slice 1 4 0 0\n7 uext 1 4 0\n8 justice 2 4 4\n9 init 2 3 3\n10 constraint 4\n".to_vec(),
    ];
    for base in bases {
        let toks = tokens_of(&base);
        for (i, t) in toks.iter().enumerate() {
            let text = base[t.start..t.end].to_vec();
            let mut push = |what: &str, with: &[u8]| {
                let mut v = base[..t.start].to_vec();
                v.extend_from_slice(with);
                v.extend_from_slice(&base[t.end..]);
                out.push(Corruption { doc: Doc::new(format!("btor2:{what}@{i}"), v), line: t.line, col_first: t.col, col_last: t.col + with.len() - 1, what: format!("{what} at token #{i} ({:?})", String::from_utf8_lossy(&text)) });
            };
            push("garbage token", b"X");
            if text.iter().all(|c| c.is_ascii_digit()) {
                push("overflowing number", &huge);
                push("number with leading zero", b"07");
            }
        }
    }
    out
}

#!/usr/bin/env python3
"""mkreg.py PROP NAME BIN PROFILE SUBJECT INPUT(python bytes literal) SPEC_JSON KEY WHAT [EXPECT_JSON]"""
import sys, json, os, ast
prop, name, binn, profile, subject, inp, spec, key, what = sys.argv[1:10]
expect = json.loads(sys.argv[10]) if len(sys.argv) > 10 else None
data = ast.literal_eval(inp)
base = {"grain": ["oneshot"], "chunk": None, "fault_at": None, "interrupts": 0, "line_gated": False, "choices": []}
base.update(json.loads(spec))
rep = {"property": prop, "subject": subject, "input_hex": data.hex(), "input": repr(data)[2:-1], "spec": base}
if expect:
    rep["expect"] = expect
rec = {"property": prop, "key": key, "what": what, "bin": binn, "profile": profile, "replay": rep}
d = os.path.join(os.path.dirname(os.path.dirname(os.path.abspath(__file__))), "regressions", prop)
os.makedirs(d, exist_ok=True)
json.dump(rec, open(os.path.join(d, name + ".json"), "w"), indent=1)
print("wrote", os.path.join(d, name + ".json"))

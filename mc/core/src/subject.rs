//! A parser run as an observable: the items handed out (canonical strings) and the final outcome.

use crate::source::{ScriptedSource, SharedSrc, SourceCfg};
#[allow(unused_imports)]
use std::io::BufRead as _;
use flussab::DeferredReader;
use std::cell::RefCell;
use std::panic::{catch_unwind, AssertUnwindSafe};

/// Final outcome of driving a parser to its end.
#[derive(Clone, Debug, PartialEq, Eq)]
pub enum End {
    Clean,
    Syntax { line: usize, column: usize, msg: String },
    Io(String),
    /// another error value (e.g. AIG structure error)
    OtherErr(String),
    Panic { msg: String, loc: String },
}

impl End {
    /// Comparison used by C01/C04: kind, location and (for syntax errors) the message: "the same
    /// error" includes what it says it found.
    pub fn same_outcome(&self, other: &End) -> bool {
        match (self, other) {
            (End::Clean, End::Clean) => true,
            (End::Syntax { line: l1, column: c1, msg: m1 }, End::Syntax { line: l2, column: c2, msg: m2 }) => l1 == l2 && c1 == c2 && m1 == m2,
            (End::Io(_), End::Io(_)) => true,
            (End::OtherErr(a), End::OtherErr(b)) => a == b,
            (End::Panic { .. }, End::Panic { .. }) => true,
            _ => false,
        }
    }
    pub fn kind(&self) -> &'static str {
        match self {
            End::Clean => "clean",
            End::Syntax { .. } => "syntax",
            End::Io(_) => "io",
            End::OtherErr(_) => "other",
            End::Panic { .. } => "panic",
        }
    }
    pub fn short(&self) -> String {
        match self {
            End::Clean => "clean".into(),
            End::Syntax { line, column, msg } => format!("syntax@{line}:{column} {msg}"),
            End::Io(m) => format!("io({m})"),
            End::OtherErr(m) => format!("err({m})"),
            End::Panic { msg, loc } => format!("panic({msg} @ {loc})"),
        }
    }
    /// location-only rendering (for comparisons in reports)
    pub fn sig(&self) -> String {
        match self {
            End::Syntax { line, column, .. } => format!("syntax@{line}:{column}"),
            End::Panic { .. } => "panic".into(),
            End::Io(_) => "io".into(),
            other => other.short(),
        }
    }
}

/// A parser driven to its final result. Items are rendered canonically (Debug of a deep copy).
pub trait Subject: Sync {
    fn name(&self) -> String;
    /// Drive the parser on `reader`; call `emit` for every item at the moment it is handed out.
    fn run(&self, reader: DeferredReader<'_>, emit: &mut dyn FnMut(String)) -> End;
    /// Does this subject hand out items incrementally (streaming API)? Only those take part in C09.
    fn streaming(&self) -> bool {
        true
    }
    /// Offsets of the LF bytes that end a line for the purpose of error locations (default: every
    /// LF; a mixed text/binary format excludes the LF-valued bytes of its binary section).
    fn line_breaks(&self, input: &[u8]) -> Vec<usize> {
        input.iter().enumerate().filter(|(_, &b)| b == b'\n').map(|(i, _)| i).collect()
    }
    /// Offsets at which a line gated source may stop (default: after every LF).
    fn boundaries(&self, input: &[u8]) -> Vec<usize> {
        let mut v: Vec<usize> = input.iter().enumerate().filter(|(_, &b)| b == b'\n').map(|(i, _)| i + 1).collect();
        if v.last() != Some(&input.len()) {
            v.push(input.len());
        }
        v
    }
}

thread_local! {
    static LAST_PANIC: RefCell<Option<(String, String)>> = const { RefCell::new(None) };
}

/// Install a panic hook that records message and location per thread instead of printing.
pub fn install_quiet_panic_hook() {
    std::panic::set_hook(Box::new(|info| {
        let msg = if let Some(s) = info.payload().downcast_ref::<&str>() {
            s.to_string()
        } else if let Some(s) = info.payload().downcast_ref::<String>() {
            s.clone()
        } else {
            "<non-string panic payload>".to_string()
        };
        let loc = info.location().map(|l| format!("{}:{}", l.file(), l.line())).unwrap_or_default();
        if std::env::var_os("MC_PANIC_VERBOSE").is_some() {
            eprintln!("panic: {msg} @ {loc}");
        }
        LAST_PANIC.with(|p| *p.borrow_mut() = Some((msg, loc)));
    }));
}

pub fn take_last_panic() -> (String, String) {
    LAST_PANIC.with(|p| p.borrow_mut().take()).unwrap_or_else(|| ("<unknown>".into(), String::new()))
}

/// Run `f` catching panics; a panic becomes `Err((message, location))`.
pub fn catch<R>(f: impl FnOnce() -> R) -> Result<R, (String, String)> {
    match catch_unwind(AssertUnwindSafe(f)) {
        Ok(r) => Ok(r),
        Err(_) => Err(take_last_panic()),
    }
}

/// Strip the path prefix of a panic location so that keys are stable (`flussab/src/text.rs:461`).
pub fn short_loc(loc: &str) -> String {
    if let Some(i) = loc.find("/repo/") {
        return loc[i + 6..].to_string();
    }
    if let Some(i) = loc.find("/library/") {
        return format!("std:{}", &loc[i + 9..]);
    }
    loc.to_string()
}

/// One execution of a subject against a scripted source.
pub struct Execution {
    pub items: Vec<String>,
    pub end: End,
    pub src: SharedSrc,
    /// bytes the source had handed out at the moment each item was emitted
    pub handed_out_at_item: Vec<usize>,
    /// largest stream position at which the subject had asked the source for more at that moment
    pub asked_at_item: Vec<usize>,
}

pub fn execute(subject: &dyn Subject, cfg: SourceCfg<'_>, chunk_size: Option<usize>, forced: Vec<(u32, u32)>) -> Execution {
    execute_via(subject, cfg, chunk_size, forced, None)
}

/// `via_buf_reader = Some(cap)`: the reader is built with `from_buf_reader` from a
/// `BufReader::with_capacity(cap, source)` whose internal buffer has been filled once.
pub fn execute_via(subject: &dyn Subject, cfg: SourceCfg<'_>, chunk_size: Option<usize>, forced: Vec<(u32, u32)>, via_buf_reader: Option<usize>) -> Execution {
    let (source, st) = ScriptedSource::new(cfg, forced);
    let mut items = Vec::new();
    let mut handed = Vec::new();
    let mut asked = Vec::new();
    let st2 = st.clone();
    let res = catch(|| {
        let mut reader = match via_buf_reader {
            None => DeferredReader::from_read(source),
            Some(cap) => {
                use std::io::BufRead;
                let mut br = std::io::BufReader::with_capacity(cap, source);
                if br.fill_buf().is_err() {
                    // the harness' own pre-fill met the (one-off) failure: re-arm it, the reader
                    // under test has to meet it as well
                    st2.borrow_mut().err_returned = 0;
                }
                DeferredReader::from_buf_reader(br)
            }
        };
        if let Some(c) = chunk_size {
            reader.set_chunk_size(c);
        }
        subject.run(reader, &mut |item| {
            handed.push(st2.borrow().pos);
            asked.push(st2.borrow().max_pos_at_call);
            items.push(item);
        })
    });
    let end = match res {
        Ok(end) => end,
        Err((msg, loc)) => End::Panic { msg, loc: short_loc(&loc) },
    };
    Execution { items, end, src: st, handed_out_at_item: handed, asked_at_item: asked }
}

/// The document sits behind `skip` envelope bytes: the harness reads and advances over them, then
/// hands the reader (position `skip`) to the subject, which builds its LineReader / parser on it.
pub fn execute_embedded(subject: &dyn Subject, cfg: SourceCfg<'_>, chunk_size: Option<usize>, forced: Vec<(u32, u32)>, skip: usize) -> Execution {
    let (source, st) = ScriptedSource::new(cfg, forced);
    let mut items = Vec::new();
    let mut handed = Vec::new();
    let st2 = st.clone();
    let res = catch(|| {
        let mut reader = DeferredReader::from_read(source);
        if let Some(c) = chunk_size {
            reader.set_chunk_size(c);
        }
        let got = reader.request(skip).len().min(skip);
        reader.advance(got);
        subject.run(reader, &mut |item| {
            handed.push(st2.borrow().pos);
            items.push(item);
        })
    });
    let end = match res {
        Ok(end) => end,
        Err((msg, loc)) => End::Panic { msg, loc: short_loc(&loc) },
    };
    Execution { items, end, src: st, handed_out_at_item: handed, asked_at_item: vec![] }
}

/// Convert a flussab style error (`SyntaxError` / io error) into an `End`.
pub fn end_of_syntax(location: flussab::text::LineColumn, msg: &str) -> End {
    End::Syntax { line: location.line, column: location.column, msg: msg.to_string() }
}

//! The DIMACS-family parsers as observable subjects.

use flussab::text::LineReader;
use flussab::DeferredReader;
use flussab_cnf::{cnf, gcnf, sat_solver_log, wcnf, Dimacs, InnerParseError, ParseError};
use mc_core::subject::{End, Subject};
use std::marker::PhantomData;

pub fn end_of(e: ParseError) -> End {
    match *e {
        InnerParseError::SyntaxError(s) => End::Syntax { line: s.location.line, column: s.location.column, msg: s.msg },
        InnerParseError::IoError(e) => End::Io(mc_core::source::render_io_error(&e)),
    }
}

pub trait LitName: Dimacs + Send + Sync + 'static {
    const NAME: &'static str;
}
macro_rules! lit_name { ($($t:ty),*) => {$( impl LitName for $t { const NAME: &'static str = stringify!($t); } )*}; }
lit_name!(i8, i16, i32, i64, isize);

pub fn lits<L: Dimacs>(c: &[L]) -> String {
    let v: Vec<isize> = c.iter().map(|l| l.dimacs()).collect();
    format!("{v:?}")
}

pub struct Cnf<L> {
    pub ignore_header: bool,
    pub _l: PhantomData<fn() -> L>,
}
impl<L: LitName> Subject for Cnf<L> {
    fn name(&self) -> String {
        format!("cnf<{}>/ignore_header={}", L::NAME, self.ignore_header)
    }
    fn run(&self, reader: DeferredReader<'_>, emit: &mut dyn FnMut(String)) -> End {
        let mut p = match cnf::Parser::<L>::new(LineReader::new(reader), cnf::Config::default().ignore_header(self.ignore_header)) {
            Ok(p) => p,
            Err(e) => return end_of(e),
        };
        let header0 = p.header().map(|h| format!("header vars={} clauses={}", h.var_count, h.clause_count));
        if let Some(h) = &header0 {
            emit(h.clone());
        }
        loop {
            // the header accessor may be called between items: its answer never changes
            if p.header().map(|h| format!("header vars={} clauses={}", h.var_count, h.clause_count)) != header0 {
                emit("HEADER-CHANGED: header() answers differently between items".to_string());
            }
            match p.next_clause() {
                Ok(Some(c)) => emit(format!("clause {}", lits(c))),
                Ok(None) => {
                    // a driver may ask again after the end: the answer stays "end of the formula"
                    for _ in 0..2 {
                        match p.next_clause() {
                            Ok(None) => {}
                            Ok(Some(_)) => emit("AFTER-END: another clause was handed out after the end of the formula".to_string()),
                            Err(e) => return end_of(e),
                        }
                    }
                    return End::Clean;
                }
                Err(e) => return end_of(e),
            }
        }
    }
}

pub struct Wcnf<L> {
    pub ignore_header: bool,
    pub _l: PhantomData<fn() -> L>,
}
impl<L: LitName> Subject for Wcnf<L> {
    fn name(&self) -> String {
        format!("wcnf<{}>/ignore_header={}", L::NAME, self.ignore_header)
    }
    fn run(&self, reader: DeferredReader<'_>, emit: &mut dyn FnMut(String)) -> End {
        let mut p = match wcnf::Parser::<L>::new(LineReader::new(reader), wcnf::Config::default().ignore_header(self.ignore_header)) {
            Ok(p) => p,
            Err(e) => return end_of(e),
        };
        let header0 = p.header().map(|h| format!("header vars={} clauses={} top={}", h.var_count, h.clause_count, h.top_weight));
        if let Some(h) = &header0 {
            emit(h.clone());
        }
        loop {
            // the header accessor may be called between items: its answer never changes
            if p.header().map(|h| format!("header vars={} clauses={} top={}", h.var_count, h.clause_count, h.top_weight)) != header0 {
                emit("HEADER-CHANGED: header() answers differently between items".to_string());
            }
            match p.next_clause() {
                Ok(Some((w, c))) => emit(format!("clause w={w} {}", lits(c))),
                Ok(None) => {
                    // a driver may ask again after the end: the answer stays "end of the formula"
                    for _ in 0..2 {
                        match p.next_clause() {
                            Ok(None) => {}
                            Ok(Some(_)) => emit("AFTER-END: another clause was handed out after the end of the formula".to_string()),
                            Err(e) => return end_of(e),
                        }
                    }
                    return End::Clean;
                }
                Err(e) => return end_of(e),
            }
        }
    }
}

pub struct Gcnf<L> {
    pub ignore_header: bool,
    pub _l: PhantomData<fn() -> L>,
}
impl<L: LitName> Subject for Gcnf<L> {
    fn name(&self) -> String {
        format!("gcnf<{}>/ignore_header={}", L::NAME, self.ignore_header)
    }
    fn run(&self, reader: DeferredReader<'_>, emit: &mut dyn FnMut(String)) -> End {
        let mut p = match gcnf::Parser::<L>::new(LineReader::new(reader), gcnf::Config::default().ignore_header(self.ignore_header)) {
            Ok(p) => p,
            Err(e) => return end_of(e),
        };
        let header0 = p.header().map(|h| format!("header vars={} clauses={} groups={}", h.var_count, h.clause_count, h.group_count));
        if let Some(h) = &header0 {
            emit(h.clone());
        }
        loop {
            // the header accessor may be called between items: its answer never changes
            if p.header().map(|h| format!("header vars={} clauses={} groups={}", h.var_count, h.clause_count, h.group_count)) != header0 {
                emit("HEADER-CHANGED: header() answers differently between items".to_string());
            }
            match p.next_clause() {
                Ok(Some((g, c))) => emit(format!("clause g={g} {}", lits(c))),
                Ok(None) => {
                    // a driver may ask again after the end: the answer stays "end of the formula"
                    for _ in 0..2 {
                        match p.next_clause() {
                            Ok(None) => {}
                            Ok(Some(_)) => emit("AFTER-END: another clause was handed out after the end of the formula".to_string()),
                            Err(e) => return end_of(e),
                        }
                    }
                    return End::Clean;
                }
                Err(e) => return end_of(e),
            }
        }
    }
}

pub struct Log<L> {
    pub ignore_unknown: bool,
    pub _l: PhantomData<fn() -> L>,
}
impl<L: LitName> Subject for Log<L> {
    fn name(&self) -> String {
        format!("log<{}>/ignore_unknown_lines={}", L::NAME, self.ignore_unknown)
    }
    fn streaming(&self) -> bool {
        false
    }
    fn run(&self, reader: DeferredReader<'_>, emit: &mut dyn FnMut(String)) -> End {
        let mut lr = LineReader::new(reader);
        match sat_solver_log::parse_log::<L>(&mut lr, sat_solver_log::Config::default().ignore_unknown_lines(self.ignore_unknown)) {
            Ok(log) => {
                emit(format!("log sat={:?} assignment={}", log.satisfiable, lits(&log.assignment)));
                End::Clean
            }
            Err(e) => end_of(e),
        }
    }
}

macro_rules! with_lit {
    ($name:expr, $f:ident, $($arg:expr),*) => {
        match $name {
            "i8" => $f::<i8>($($arg),*),
            "i16" => $f::<i16>($($arg),*),
            "i32" => $f::<i32>($($arg),*),
            "i64" => $f::<i64>($($arg),*),
            "isize" => $f::<isize>($($arg),*),
            other => panic!("unknown literal type {other}"),
        }
    };
}

fn mk<L: LitName>(kind: &str, flag: bool) -> Box<dyn Subject> {
    match kind {
        "cnf" => Box::new(Cnf::<L> { ignore_header: flag, _l: PhantomData }),
        "wcnf" => Box::new(Wcnf::<L> { ignore_header: flag, _l: PhantomData }),
        "gcnf" => Box::new(Gcnf::<L> { ignore_header: flag, _l: PhantomData }),
        "log" => Box::new(Log::<L> { ignore_unknown: flag, _l: PhantomData }),
        other => panic!("unknown subject kind {other}"),
    }
}

pub fn make(kind: &str, lit: &str, flag: bool) -> Box<dyn Subject> {
    with_lit!(lit, mk, kind, flag)
}

/// "cnf<i32>/ignore_header=false" -> subject
pub fn by_name(name: &str) -> Box<dyn Subject> {
    let kind = name.split('<').next().unwrap();
    let lit = name.split('<').nth(1).unwrap().split('>').next().unwrap();
    let flag = name.ends_with("=true");
    make(kind, lit, flag)
}

pub const KINDS: [&str; 4] = ["cnf", "wcnf", "gcnf", "log"];
pub const LITS: [&str; 5] = ["i8", "i16", "i32", "i64", "isize"];

/// Subjects of one kind for a tier.
pub fn subjects(kind: &str, lits: &[&str], flags: &[bool]) -> Vec<Box<dyn Subject>> {
    let mut v = Vec::new();
    for l in lits {
        for &f in flags {
            v.push(make(kind, l, f));
        }
    }
    v
}

/// The public convenience constructors (`from_read`, `from_buf_reader` with a pre-filled BufReader,
/// `from_boxed_dyn_read`) must behave like `new(LineReader::new(DeferredReader::from_read(..)))`.
/// Returns the observations (items, end) per constructor for the i32 literal type.
pub fn via_constructors(kind: &str, input: &[u8]) -> Vec<(&'static str, Vec<String>, End)> {
    use std::io::{BufRead, BufReader};
    let mut out = Vec::new();
    macro_rules! drive {
        ($name:expr, $parser:expr, $fmt_header:expr, $fmt_clause:expr) => {{
            let mut items = Vec::new();
            let end = match $parser {
                Err(e) => end_of(e),
                Ok(mut p) => {
                    if let Some(h) = p.header() {
                        items.push($fmt_header(h));
                    }
                    loop {
                        match p.next_clause() {
                            Ok(Some(c)) => items.push($fmt_clause(c)),
                            Ok(None) => break End::Clean,
                            Err(e) => break end_of(e),
                        }
                    }
                }
            };
            out.push(($name, items, end));
        }};
    }
    let prefilled = |cap: usize| {
        let mut br = BufReader::with_capacity(cap, input);
        let _ = br.fill_buf();
        br
    };
    match kind {
        "cnf" => {
            let fh = |h: cnf::Header| format!("header vars={} clauses={}", h.var_count, h.clause_count);
            let fc = |c: &[i32]| format!("clause {}", lits(c));
            drive!("from_read", cnf::Parser::<i32>::from_read(input, cnf::Config::default()), fh, fc);
            drive!("from_buf_reader", cnf::Parser::<i32>::from_buf_reader(prefilled(5), cnf::Config::default()), fh, fc);
            drive!("from_buf_reader(capacity 0)", cnf::Parser::<i32>::from_buf_reader(prefilled(0), cnf::Config::default()), fh, fc);
            drive!("from_buf_reader(capacity 1)", cnf::Parser::<i32>::from_buf_reader(prefilled(1), cnf::Config::default()), fh, fc);
            drive!("from_boxed_dyn_read", cnf::Parser::<i32>::from_boxed_dyn_read(Box::new(input), cnf::Config::default()), fh, fc);
        }
        "wcnf" => {
            let fh = |h: wcnf::Header| format!("header vars={} clauses={} top={}", h.var_count, h.clause_count, h.top_weight);
            let fc = |c: (u64, &[i32])| format!("clause w={} {}", c.0, lits(c.1));
            drive!("from_read", wcnf::Parser::<i32>::from_read(input, wcnf::Config::default()), fh, fc);
            drive!("from_buf_reader", wcnf::Parser::<i32>::from_buf_reader(prefilled(5), wcnf::Config::default()), fh, fc);
            drive!("from_buf_reader(capacity 0)", wcnf::Parser::<i32>::from_buf_reader(prefilled(0), wcnf::Config::default()), fh, fc);
            drive!("from_buf_reader(capacity 1)", wcnf::Parser::<i32>::from_buf_reader(prefilled(1), wcnf::Config::default()), fh, fc);
            drive!("from_boxed_dyn_read", wcnf::Parser::<i32>::from_boxed_dyn_read(Box::new(input), wcnf::Config::default()), fh, fc);
        }
        "gcnf" => {
            let fh = |h: gcnf::Header| format!("header vars={} clauses={} groups={}", h.var_count, h.clause_count, h.group_count);
            let fc = |c: (usize, &[i32])| format!("clause g={} {}", c.0, lits(c.1));
            drive!("from_read", gcnf::Parser::<i32>::from_read(input, gcnf::Config::default()), fh, fc);
            drive!("from_buf_reader", gcnf::Parser::<i32>::from_buf_reader(prefilled(5), gcnf::Config::default()), fh, fc);
            drive!("from_buf_reader(capacity 0)", gcnf::Parser::<i32>::from_buf_reader(prefilled(0), gcnf::Config::default()), fh, fc);
            drive!("from_buf_reader(capacity 1)", gcnf::Parser::<i32>::from_buf_reader(prefilled(1), gcnf::Config::default()), fh, fc);
            drive!("from_boxed_dyn_read", gcnf::Parser::<i32>::from_boxed_dyn_read(Box::new(input), gcnf::Config::default()), fh, fc);
        }
        _ => {}
    }
    out
}

//! Explicit-state search over operation histories of the real `DeferredReader`
//! (C02; reader half of C09; reader half of C14).
//!
//! State = history (replayed on a fresh reader + scripted source), deduplicated by the complete
//! concrete state (hook H1 + source state). Transition = one public API call with every sequence of
//! environment answers it can consume (nested DFS over the source's choice menu). After every
//! transition the step oracle compares everything observable with a `Vec` + cursor reference model,
//! and a destructive drain epilogue reads everything that is left.

use flussab::DeferredReader;
use mc_core::bfs::bfs;
use mc_core::choice::explore;
use mc_core::report::Report;
use mc_core::source::{stamped, Ans, Grain, Menu, ScriptedSource, SharedSrc, SourceCfg};
use mc_core::subject::{catch, short_loc};
use mc_core::{json, Budget, Tier, Value};
use std::io::{self, BufRead, BufReader, Read};

#[derive(Clone, Copy, Debug, PartialEq, Eq)]
pub enum Mode {
    /// full functional oracle (window content, position, mark, flags, return values)
    C02,
    /// call counting oracle (reads per refill, no read when satisfied, never after terminal)
    C09,
    /// alphabet extended with panicking calls / lying sources; safety oracle
    C14,
}

#[derive(Clone, Debug, PartialEq, Eq)]
pub enum ROp {
    Request(usize),
    ByteAt(usize),
    RequestByte,
    RequestMore,
    Advance(usize),
    AdvanceWithBuf(usize),
    SetMark,
    SetMarkTo(usize),
    SetChunk(usize),
    CheckIoError,
}

#[derive(Clone, Debug, PartialEq, Eq)]
pub struct Step {
    pub op: ROp,
    pub choices: Vec<(u32, u32)>,
}

#[derive(Clone, Debug, PartialEq, Eq)]
pub enum Ctor {
    FromRead,
    FromBufReader { cap: usize, consume: usize },
}

#[derive(Clone, Debug, PartialEq, Eq)]
pub struct Cfg {
    pub n: usize,
    pub fault_at: Option<usize>,
    /// index into `mc_core::source::FAULT_KINDS`
    pub fault_kind: usize,
    pub chunk0: usize,
    pub ctor: Ctor,
    pub interrupts: u32,
    /// C14: the source lies at this read call (0-based): claims `claim` bytes
    pub lie: Option<(u32, usize)>,
    pub menu_all: bool,
}

/// Wrapper that makes the source claim more bytes than the slice it was given at one read call.
/// `claim == SHORT_SLICE_LIAR`: from call `at` on, whenever the slice it is given is shorter than the
/// configured chunk size the source delivers what fits and reports a full chunk. (A reader that
/// always hands out chunk-sized slices never meets this lie.)
pub const SHORT_SLICE_LIAR: usize = usize::MAX - 1;
/// `claim == PANIC_SOURCE`: the source's `read` panics at call `at` (once); the caller catches it.
pub const PANIC_SOURCE: usize = usize::MAX - 2;

thread_local! {
    /// the chunk size the harness configured last on this thread's reader (what the liar compares with)
    static CUR_CHUNK: std::cell::Cell<usize> = const { std::cell::Cell::new(0) };
}

struct LyingSource<'d> {
    inner: ScriptedSource<'d>,
    lie: Option<(u32, usize)>,
    calls: std::rc::Rc<std::cell::Cell<u32>>,
}

impl Read for LyingSource<'_> {
    fn read(&mut self, buf: &mut [u8]) -> io::Result<usize> {
        let i = self.calls.get();
        self.calls.set(i + 1);
        if let Some((at, PANIC_SOURCE)) = self.lie {
            if i == at {
                panic!("scripted source panic");
            }
            return self.inner.read(buf);
        }
        if let Some((at, SHORT_SLICE_LIAR)) = self.lie {
            let chunk = CUR_CHUNK.with(|c| c.get());
            if i >= at && buf.len() < chunk {
                return self.inner.read(buf).map(|n| if n > 0 { chunk } else { 0 });
            }
            return self.inner.read(buf);
        }
        if let Some((at, claim)) = self.lie {
            if at == i {
                // claims more than it was given, writes nothing
                return Ok(if claim == usize::MAX { usize::MAX } else { buf.len() + claim });
            }
        }
        self.inner.read(buf)
    }
}

#[derive(Clone, Debug)]
struct Model {
    /// offset of the reader's stream start within the source stream (bytes consumed through the BufReader)
    base: usize,
    cursor: usize,
    mark: usize,
    err_taken: bool,
    /// C14: the model has been resynchronised after a caught panic
    resynced: bool,
    /// C14: the reader was configured outside its documented domain (chunk size 0): only memory
    /// safety is judged from here on
    lenient: bool,
}

struct World<'d> {
    reader: DeferredReader<'d>,
    src: SharedSrc,
    model: Model,
    /// bytes that were sitting in the BufReader when the reader was built
    leftover: usize,
    lie_calls: std::rc::Rc<std::cell::Cell<u32>>,
}

#[derive(Debug, Clone)]
enum OpResult {
    Unit,
    Slice(Vec<u8>),
    Byte(Option<u8>),
    Bool(bool),
    Io(bool), // is_err
    /// check_io_error returned an error that is not the source's own error object (rendering)
    WrongError(String),
    Panicked(String, String),
}

fn build<'d>(cfg: &Cfg, data: &'d [u8], forced: Vec<(u32, u32)>) -> Result<World<'d>, String> {
    let scfg = SourceCfg::new(data, Grain::Choose(if cfg.menu_all { Menu::AllSizes } else { Menu::Small }))
        .fault_at(cfg.fault_at)
        .fault_kind(cfg.fault_kind)
        .interrupts(cfg.interrupts)
        // the source always uses the rest of the slice as scratch space (0xff is not a stamp): bytes
        // behind the valid window are never zeros, an exposed one fails the content oracle
        .scribble(Some(0xff))
        .record(true);
    let (inner, src) = ScriptedSource::new(scfg, forced);
    let lie_calls = std::rc::Rc::new(std::cell::Cell::new(0));
    CUR_CHUNK.with(|c| c.set(cfg.chunk0));
    let source = LyingSource { inner, lie: cfg.lie, calls: lie_calls.clone() };
    let (mut reader, base, leftover) = match cfg.ctor {
        Ctor::FromRead => (DeferredReader::from_read(source), 0, 0),
        Ctor::FromBufReader { cap, consume } => {
            let mut br = BufReader::with_capacity(cap, source);
            let filled = match br.fill_buf() {
                Ok(b) => b.len(),
                Err(_) => 0,
            };
            let j = consume.min(filled);
            br.consume(j);
            (DeferredReader::from_buf_reader(br), j, filled - j)
        }
    };
    // chunk0 == 0: the chunk size the constructor chose is left alone
    if cfg.chunk0 != 0 {
        reader.set_chunk_size(cfg.chunk0);
    }
    {
        // what the source told the BufReader while the harness pre-consumed bytes happened before
        // the reader existed: terminal answers are counted from here on
        let mut s = src.borrow_mut();
        s.eof_returned = 0;
        s.err_returned = 0;
        s.calls_after_terminal = 0;
        if cfg.lie.is_some() {
            lie_calls.set(0);
        }
    }
    Ok(World { reader, src, model: Model { base, cursor: 0, mark: 0, err_taken: false, resynced: false, lenient: false }, leftover, lie_calls })
}

fn apply(w: &mut World, op: &ROp) -> OpResult {
    let reader = &mut w.reader;
    let r = catch(|| match op {
        ROp::Request(n) => OpResult::Slice(reader.request(*n).to_vec()),
        ROp::ByteAt(k) => OpResult::Byte(reader.request_byte_at_offset(*k)),
        ROp::RequestByte => OpResult::Byte(reader.request_byte()),
        ROp::RequestMore => OpResult::Bool(reader.request_more()),
        ROp::Advance(n) => {
            reader.advance(*n);
            OpResult::Unit
        }
        ROp::AdvanceWithBuf(n) => OpResult::Slice(reader.advance_with_buf(*n).to_vec()),
        ROp::SetMark => {
            reader.set_mark();
            OpResult::Unit
        }
        ROp::SetMarkTo(p) => {
            reader.set_mark_to_position(*p);
            OpResult::Unit
        }
        ROp::SetChunk(c) => {
            CUR_CHUNK.with(|cc| cc.set(*c));
            reader.set_chunk_size(*c);
            OpResult::Unit
        }
        ROp::CheckIoError => match reader.check_io_error() {
            Ok(()) => OpResult::Io(false),
            Err(e) => {
                let r = mc_core::source::render_io_error(&e);
                if r.contains("/scripted-payload/") { OpResult::Io(true) } else { OpResult::WrongError(r) }
            }
        },
    });
    match r {
        Ok(r) => r,
        Err((m, l)) => OpResult::Panicked(m, short_loc(&l)),
    }
}

/// A chunk size that no allocation can satisfy.
pub const HUGE_CHUNK: usize = isize::MAX as usize;

/// What the model expects the op to do (documented behaviour); only used outside C14-resync.
fn model_step(m: &mut Model, op: &ROp) {
    if let ROp::SetChunk(0) = op {
        m.lenient = true;
    }
    match op {
        ROp::Advance(n) | ROp::AdvanceWithBuf(n) => m.cursor += n,
        ROp::SetMark => m.mark = m.cursor,
        ROp::SetMarkTo(p) => m.mark = *p,
        _ => {}
    }
}

struct Snapshot {
    buf_len: usize,
    complete: bool,
    read_calls: u32,
    ok_reads: u32,
    interrupted: u32,
    log_len: usize,
    terminal: bool,
    pos_of_buf: usize,
    vec_len: usize,
    /// bytes of the BufReader's left-over buffer the reader has not taken in yet
    chain_pending: usize,
}

fn snapshot(w: &World) -> Snapshot {
    let st = w.reader.verif_state();
    let s = w.src.borrow();
    Snapshot {
        buf_len: st.valid_len,
        complete: st.complete,
        read_calls: s.read_calls,
        ok_reads: s.ok_reads,
        interrupted: s.interrupted,
        log_len: s.log.len(),
        terminal: s.terminal(),
        pos_of_buf: st.pos_of_buf,
        vec_len: st.buf_len,
        chain_pending: w.leftover.saturating_sub(st.pos_of_buf.wrapping_add(st.pos_in_buf).wrapping_add(st.valid_len)),
    }
}

type Problems = Vec<(&'static str, String)>;

/// Structural SAFETY invariant through the hook, without dereferencing anything.
fn safety(w: &World) -> Option<String> {
    let st = w.reader.verif_state();
    match st.pos_in_buf.checked_add(st.valid_len) {
        Some(end) if end <= st.buf_len => None,
        _ => Some(format!("SAFETY invariant broken: pos_in_buf {} + valid_len {} exceeds buf.len() {}", st.pos_in_buf, st.valid_len, st.buf_len)),
    }
}

/// Step oracle. Returns problems by category: "safety", "content", "position", "mark", "flags",
/// "return", "reads" (call counting), "panic".
fn oracle(cfg: &Cfg, mode: Mode, data: &[u8], w: &mut World, op: &ROp, before: &Snapshot, res: &OpResult) -> Problems {
    let mut p: Problems = Vec::new();
    if let Some(s) = safety(w) {
        p.push(("safety", s));
        return p; // never touch buf() in this state
    }
    let lying = cfg.lie.is_some();
    let panicked = matches!(res, OpResult::Panicked(..));
    if let OpResult::Panicked(m, l) = res {
        if mode != Mode::C14 {
            p.push(("panic", format!("{op:?} panicked: {m} @ {l}")));
            return p;
        }
        // C14: a panic is an accepted outcome of a call that is documented to panic (advance past
        // the buffered data; a source violating the Read contract); the state afterwards must still
        // be consistent. Resynchronise the model's cursor with the reader's own position.
        let documented = match op {
            ROp::Advance(n) | ROp::AdvanceWithBuf(n) => *n > before.buf_len,
            ROp::Request(_) | ROp::ByteAt(_) | ROp::RequestByte | ROp::RequestMore => lying || w.reader.verif_state().chunk_size >= HUGE_CHUNK,
            _ => false,
        };
        if !documented {
            p.push(("panic", format!("{op:?} panicked although it is not documented to: {m} @ {l}")));
            return p;
        }
        w.model.resynced = true;
    } else if !w.model.resynced {
        model_step(&mut w.model, op);
    }
    let st = w.reader.verif_state();
    let src = w.src.borrow();
    // judged first: the content checks below return early when the window is wrong, which is what
    // happens to a reader that goes on reading behind a failure
    if src.calls_after_terminal > 0 {
        p.push(("reads", format!("the source was called {} time(s) after it had reported end of input / an error", src.calls_after_terminal)));
    }
    let stream = &data[w.model.base..cfg.fault_at.map_or(data.len(), |k| k.min(data.len())).max(w.model.base)];
    let delivered_to_chain = src.pos - w.model.base.min(src.pos);
    if w.model.resynced {
        // lenient model (C14 after a caught panic): trust position() as the cursor if plausible
        let pos = w.reader.position();
        if pos > delivered_to_chain {
            p.push(("safety", format!("after a caught panic position() = {pos} lies beyond the {delivered_to_chain} bytes ever delivered")));
            return p;
        }
        w.model.cursor = pos;
    }
    let cursor = w.model.cursor;
    let buf = w.reader.buf().to_vec();
    let buf_len = w.reader.buf_len();
    // --- window content: exactly the next bytes of the stream
    if buf.len() != buf_len {
        p.push(("content", format!("buf().len() {} != buf_len() {}", buf.len(), buf_len)));
    }
    // buf_ptr() is the safe accessor callers combine with buf_len() for their own raw loads: it
    // must designate the first byte of the exposed window
    if w.reader.buf_ptr() != w.reader.buf().as_ptr() {
        let cat = if mode == Mode::C14 { "safety" } else { "content" };
        p.push((cat, format!("buf_ptr() is {} bytes away from buf().as_ptr()", (w.reader.buf_ptr() as isize).wrapping_sub(w.reader.buf().as_ptr() as isize))));
    }
    if cursor + buf.len() > stream.len() || buf[..] != stream[cursor..cursor + buf.len()] {
        let cat = if mode == Mode::C14 { "safety" } else { "content" };
        p.push((cat, format!("buf() = {:?} is not the stream at the cursor ({cursor}): expected a prefix of {:?}", buf, &stream[cursor.min(stream.len())..])));
        return p;
    }
    if cursor + buf.len() > delivered_to_chain {
        p.push(("content", format!("reader exposes {} bytes beyond the cursor but only {} were ever delivered", buf.len(), delivered_to_chain - cursor.min(delivered_to_chain))));
    }
    if mode == Mode::C14 && (w.model.resynced || w.model.lenient || lying || st.chunk_size == 0) {
        return p; // lenient: safety + content only
    }
    // bytes still sitting in the BufReader's cursor are not yet visible; everything the chain has
    // handed to the reader must be
    let chain_pending = w.leftover.saturating_sub(st.pos_of_buf.wrapping_add(st.pos_in_buf).wrapping_add(st.valid_len));
    let handed_to_reader = delivered_to_chain - chain_pending.min(delivered_to_chain);
    if cursor + buf.len() != handed_to_reader {
        p.push(("content", format!("bytes lost or duplicated: cursor {cursor} + buffered {} != {} bytes handed to the reader", buf.len(), handed_to_reader)));
    }
    // --- position / mark
    if w.reader.position() != cursor {
        p.push(("position", format!("position() = {} but {cursor} bytes were advanced over", w.reader.position())));
    }
    if w.reader.mark() != w.model.mark {
        p.push(("mark", format!("mark() = {} but the mark was set at absolute offset {}", w.reader.mark(), w.model.mark)));
    }
    // --- flags
    let terminal = src.terminal();
    if w.reader.is_complete() != terminal {
        p.push(("flags", format!("is_complete() = {} but the source has{} reported its end/an error", w.reader.is_complete(), if terminal { "" } else { " not" })));
    }
    if w.reader.is_at_end() != (terminal && buf.is_empty()) {
        p.push(("flags", format!("is_at_end() = {} with complete={terminal}, {} bytes buffered", w.reader.is_at_end(), buf.len())));
    }
    let err_pending = src.err_returned > 0 && !w.model.err_taken;
    // (check_io_error handled below updates err_taken first)
    // --- return values
    match (op, res) {
        (ROp::Request(n), OpResult::Slice(s)) => {
            if s[..] != buf[..] {
                p.push(("return", format!("request({n}) returned {s:?} but buf() is {buf:?}")));
            }
            if s.len() < *n && !terminal {
                p.push(("return", format!("request({n}) fell short ({} bytes) although the source has not ended", s.len())));
            }
        }
        (ROp::ByteAt(k), OpResult::Byte(b)) => check_byte(&mut p, *k, *b, stream, cursor, terminal),
        (ROp::RequestByte, OpResult::Byte(b)) => check_byte(&mut p, 0, *b, stream, cursor, terminal),
        (ROp::RequestMore, OpResult::Bool(b)) => {
            if *b == before.complete {
                p.push(("return", format!("request_more() returned {b} with complete={} before the call", before.complete)));
            }
        }
        (ROp::AdvanceWithBuf(n), OpResult::Slice(s)) => {
            if s[..] != stream[cursor - n..cursor] {
                p.push(("return", format!("advance_with_buf({n}) returned {s:?}, the bytes passed over are {:?}", &stream[cursor - n..cursor])));
            }
        }
        (ROp::CheckIoError, OpResult::WrongError(r)) => {
            p.push(("flags", format!("check_io_error() returned an error that is not the source's own error object: {r}")));
            w.model.err_taken = true;
        }
        (ROp::CheckIoError, OpResult::Io(is_err)) => {
            let expected = src.err_returned > 0 && !w.model.err_taken;
            if *is_err != expected {
                p.push(("flags", format!("check_io_error() returned is_err={is_err}, expected {expected}")));
            }
            if expected {
                w.model.err_taken = true;
            }
        }
        _ => {}
    }
    let err_pending = if matches!(op, ROp::CheckIoError) { src.err_returned > 0 && !w.model.err_taken } else { err_pending };
    if w.reader.io_error().is_some() != err_pending {
        p.push(("flags", format!("io_error().is_some() = {} but pending error = {err_pending}", w.reader.io_error().is_some())));
    }
    // --- call counting (C09 reader half)
    let reads = src.read_calls - before.read_calls;
    let ok = src.ok_reads - before.ok_reads;
    let intr = src.interrupted - before.interrupted;
    let sizes: Vec<usize> = src.log[before.log_len..].iter().filter_map(|a| if let Ans::Deliver(k) = a { Some(*k) } else { None }).collect();
    let need: Option<usize> = match op {
        ROp::Request(n) => Some(*n),
        ROp::ByteAt(k) => Some(k.saturating_add(1)),
        ROp::RequestByte => Some(1),
        _ => None,
    };
    match op {
        ROp::RequestMore => {
            // one successful read of the underlying chain: served from the BufReader's left-over
            // bytes while there are any (no source call), from the source afterwards
            let expect_non_intr = if before.complete || before.chain_pending > 0 { 0 } else { 1 };
            if reads - intr != expect_non_intr {
                p.push(("reads", format!("request_more() performed {} non-interrupted reads of the source, expected exactly {expect_non_intr} ({} pre-buffered bytes pending)", reads - intr, before.chain_pending)));
            }
        }
        ROp::Request(_) | ROp::ByteAt(_) | ROp::RequestByte => {
            let need = need.unwrap();
            if before.buf_len >= need && reads != 0 {
                p.push(("reads", format!("{op:?} performed {reads} read(s) although {} bytes were already buffered", before.buf_len)));
            }
            // stopped as soon as satisfied: before the last successful read the request was unsatisfied
            if ok > 0 {
                // pre-buffered bytes are always taken in before the source is asked, so the last
                // read of the operation is the last source read
                let before_last = w.reader.buf_len() - sizes[sizes.len() - 1].min(w.reader.buf_len());
                if before_last >= need {
                    p.push(("reads", format!("{op:?} kept reading after it was satisfied ({before_last} bytes buffered before the last read, needed {need})")));
                }
            }
            if before.terminal && reads != 0 {
                p.push(("reads", format!("{op:?} called the source although it had already ended")));
            }
        }
        _ => {
            if reads != 0 {
                p.push(("reads", format!("{op:?} performed {reads} read(s)")));
            }
        }
    }
    let _ = panicked;
    p
}

fn check_byte(p: &mut Problems, k: usize, got: Option<u8>, stream: &[u8], cursor: usize, terminal: bool) {
    let expected = cursor.checked_add(k).and_then(|i| stream.get(i)).copied();
    match (got, expected) {
        (Some(g), Some(e)) if g == e => {}
        (None, None) if terminal => {}
        _ => p.push(("return", format!("request_byte_at_offset({k}) returned {got:?}, the stream has {expected:?} there (terminal={terminal})"))),
    }
}

fn key_of(w: &World) -> Vec<u8> {
    let st = w.reader.verif_state();
    let s = w.src.borrow();
    let mut k: Vec<u8> = Vec::with_capacity(48);
    for v in [st.pos_in_buf, st.valid_len, st.buf_len, st.pos_of_buf, st.mark_in_buf, st.chunk_size, s.pos] {
        k.extend_from_slice(&(v as u64).to_le_bytes()[..]);
    }
    k.push(st.complete as u8 | (st.io_error as u8) << 1 | (w.model.err_taken as u8) << 2 | (w.model.resynced as u8) << 3 | (w.model.lenient as u8) << 4);
    k.push(s.interrupts_left as u8);
    k.push(s.eof_returned.min(3) as u8);
    k.push(s.err_returned.min(3) as u8);
    k.push(w.lie_calls.get().min(8) as u8);
    k
}

/// Candidate operations in the current concrete state.
fn alphabet(cfg: &Cfg, mode: Mode, w: &World, tier: Tier) -> Vec<ROp> {
    let bl = w.reader.buf_len();
    let pos = w.reader.position();
    if matches!(cfg.lie, Some((_, SHORT_SLICE_LIAR))) {
        // long stream, slim alphabet: refills (with every read size), look-ahead and consumption
        let mut ops = vec![ROp::RequestMore, ROp::Request(3), ROp::ByteAt(1)];
        for n in [1usize, bl] {
            if n >= 1 && n <= bl {
                ops.push(ROp::Advance(n));
            }
        }
        ops.dedup();
        return ops;
    }
    let mut ops = vec![ROp::RequestMore, ROp::RequestByte, ROp::CheckIoError];
    for n in [0usize, 1, 2, 3, 7] {
        ops.push(ROp::Request(n));
    }
    for k in [1usize, 4, usize::MAX] {
        ops.push(ROp::ByteAt(k));
    }
    let mut adv: Vec<usize> = vec![0, 1, 2, bl];
    adv.retain(|&n| n <= bl);
    adv.sort();
    adv.dedup();
    for &n in &adv {
        ops.push(ROp::Advance(n));
        ops.push(ROp::AdvanceWithBuf(n));
    }
    if mode != Mode::C09 {
        ops.push(ROp::SetMark);
        let mut marks = vec![0usize, pos, pos + 2];
        if pos > 0 {
            marks.push(pos - 1);
        }
        marks.sort();
        marks.dedup();
        for m in marks {
            ops.push(ROp::SetMarkTo(m));
        }
    }
    let chunks: &[usize] = if tier == Tier::Quick { &[1, 3] } else { &[1, 3] };
    for &c in chunks {
        if c != w.reader.verif_state().chunk_size {
            ops.push(ROp::SetChunk(c));
        }
    }
    if mode == Mode::C14 {
        for extra in [1usize, 7] {
            ops.push(ROp::Advance(bl + extra));
            ops.push(ROp::AdvanceWithBuf(bl + extra));
        }
        ops.push(ROp::Advance(usize::MAX));
        ops.push(ROp::AdvanceWithBuf(usize::MAX));
        if w.reader.verif_state().chunk_size != 0 {
            ops.push(ROp::SetChunk(0));
        }
        // a chunk size no allocation can satisfy (legal through the safe API): the refill panics with
        // a capacity overflow (caught); the window must still be what it was. Short streams only.
        if cfg.n <= 3 && cfg.lie.is_none() && w.reader.verif_state().chunk_size != 0 && w.reader.verif_state().chunk_size < HUGE_CHUNK {
            // 2^63 - 1 passes every doubling / addition and fails in the allocation itself; 2^63 makes
            // `2 * chunk` wrap to zero, usize::MAX makes the additions wrap: different paths
            // (2^63 - 1 only with something in the buffer: then the size asked for exceeds isize::MAX
            // and the refill panics with a capacity overflow; with an empty buffer it is a real
            // request for 2^63 - 1 bytes, whose failure ends the process - an allocation failure,
            // not a question of this property)
            let stv = w.reader.verif_state();
            if stv.pos_in_buf + stv.valid_len > 0 {
                ops.push(ROp::SetChunk(HUGE_CHUNK));
            }
            ops.push(ROp::SetChunk(HUGE_CHUNK + 1));
            ops.push(ROp::SetChunk(usize::MAX));
        }
    }
    ops
}

fn forced_of(hist: &[Step]) -> Vec<(u32, u32)> {
    hist.iter().flat_map(|s| s.choices.iter().copied()).collect()
}

/// Replay a history on a fresh world (no oracle; histories in the frontier passed it already).
fn replay<'d>(cfg: &Cfg, mode: Mode, data: &'d [u8], hist: &[Step], extra_forced: &[(u32, u32)]) -> Result<World<'d>, String> {
    let mut forced = forced_of(hist);
    forced.extend_from_slice(extra_forced);
    let mut w = build(cfg, data, forced)?;
    for step in hist {
        let before = snapshot(&w);
        let res = apply(&mut w, &step.op);
        // keep the model in sync (cheap part of the oracle)
        if let ROp::SetChunk(0) = step.op {
            w.model.lenient = true;
        }
        if let OpResult::Panicked(..) = res {
            w.model.resynced = true;
        } else if !w.model.resynced {
            model_step(&mut w.model, &step.op);
        }
        if w.model.resynced && safety(&w).is_none() {
            w.model.cursor = w.reader.position();
        }
        if let (ROp::CheckIoError, OpResult::Io(true) | OpResult::WrongError(_)) = (&step.op, &res) {
            w.model.err_taken = true;
        }
        let _ = (before, mode);
    }
    Ok(w)
}

fn drain(cfg: &Cfg, data: &[u8], w: &mut World) -> Option<String> {
    // read everything that is left and compare with the rest of the stream
    let base = w.model.base;
    let end = cfg.fault_at.map_or(data.len(), |k| k.min(data.len())).max(base);
    let stream = &data[base..end];
    let cursor = w.model.cursor;
    // a chunk size that cannot be allocated is put right first: the drain asks what the reader still
    // holds and can still deliver, not whether it can allocate 2^63 bytes
    if w.reader.verif_state().chunk_size >= HUGE_CHUNK {
        w.reader.set_chunk_size(2);
    }
    let r = catch(|| {
        w.reader.request(usize::MAX).to_vec()
    });
    match r {
        Err((m, l)) => Some(format!("drain panicked: {m} @ {}", short_loc(&l))),
        Ok(rest) => {
            if safety(w).is_some() {
                return safety(w);
            }
            if rest[..] != stream[cursor.min(stream.len())..] {
                Some(format!("draining the reader from cursor {cursor} gave {:?}, the rest of the stream is {:?}", rest, &stream[cursor.min(stream.len())..]))
            } else {
                None
            }
        }
    }
}

fn category_reported(mode: Mode, cat: &str) -> bool {
    match mode {
        Mode::C02 => matches!(cat, "content" | "position" | "mark" | "flags" | "return" | "panic" | "safety" | "drain"),
        Mode::C09 => matches!(cat, "reads"),
        Mode::C14 => matches!(cat, "safety" | "panic" | "content" | "drain"),
    }
}

fn prop_name(mode: Mode) -> &'static str {
    match mode {
        Mode::C02 => "C02",
        Mode::C09 => "C09",
        Mode::C14 => "C14",
    }
}

fn op_class(op: &ROp) -> &'static str {
    match op {
        ROp::Request(_) => "request",
        ROp::ByteAt(_) => "request_byte_at_offset",
        ROp::RequestByte => "request_byte",
        ROp::RequestMore => "request_more",
        ROp::Advance(_) => "advance",
        ROp::AdvanceWithBuf(_) => "advance_with_buf",
        ROp::SetMark => "set_mark",
        ROp::SetMarkTo(_) => "set_mark_to_position",
        ROp::SetChunk(_) => "set_chunk_size",
        ROp::CheckIoError => "check_io_error",
    }
}

pub fn replay_value(cfg: &Cfg, mode: Mode, hist: &[Step]) -> Value {
    json!({
        "property": prop_name(mode),
        "subject": "DeferredReader",
        "config": format!("{cfg:?}"),
        "cfg": {"n": cfg.n, "fault_at": cfg.fault_at, "fault_kind": cfg.fault_kind, "chunk0": cfg.chunk0, "interrupts": cfg.interrupts, "menu_all": cfg.menu_all,
                 "ctor": match cfg.ctor { Ctor::FromRead => json!("from_read"), Ctor::FromBufReader { cap, consume } => json!({"cap": cap, "consume": consume}) },
                 "lie": cfg.lie.map(|(a, c)| json!([a, if c == usize::MAX { -1i64 } else if c == SHORT_SLICE_LIAR { -2i64 } else if c == PANIC_SOURCE { -3i64 } else { c as i64 }]))},
        "history": hist.iter().map(|s| json!({"op": op_to_json(&s.op), "choices": s.choices.iter().map(|(c, n)| json!([c, n])).collect::<Vec<_>>() })).collect::<Vec<_>>(),
    })
}

fn op_to_json(op: &ROp) -> Value {
    let big = |n: usize| if n == usize::MAX { json!("MAX") } else { json!(n) };
    match op {
        ROp::Request(n) => json!(["request", big(*n)]),
        ROp::ByteAt(k) => json!(["request_byte_at_offset", k]),
        ROp::RequestByte => json!(["request_byte"]),
        ROp::RequestMore => json!(["request_more"]),
        ROp::Advance(n) => json!(["advance", big(*n)]),
        ROp::AdvanceWithBuf(n) => json!(["advance_with_buf", big(*n)]),
        ROp::SetMark => json!(["set_mark"]),
        ROp::SetMarkTo(p) => json!(["set_mark_to_position", p]),
        ROp::SetChunk(c) => json!(["set_chunk_size", c]),
        ROp::CheckIoError => json!(["check_io_error"]),
    }
}

fn op_from_json(v: &Value) -> ROp {
    let name = v[0].as_str().unwrap();
    let arg = || if v[1].as_str() == Some("MAX") { usize::MAX } else { v[1].as_u64().unwrap() as usize };
    match name {
        "request" => ROp::Request(arg()),
        "request_byte_at_offset" => ROp::ByteAt(arg()),
        "request_byte" => ROp::RequestByte,
        "request_more" => ROp::RequestMore,
        "advance" => ROp::Advance(arg()),
        "advance_with_buf" => ROp::AdvanceWithBuf(arg()),
        "set_mark" => ROp::SetMark,
        "set_mark_to_position" => ROp::SetMarkTo(arg()),
        "set_chunk_size" => ROp::SetChunk(arg()),
        "check_io_error" => ROp::CheckIoError,
        other => panic!("unknown op {other}"),
    }
}

fn cfg_from_json(v: &Value) -> Cfg {
    Cfg {
        n: v["n"].as_u64().unwrap() as usize,
        fault_at: v["fault_at"].as_u64().map(|x| x as usize),
        fault_kind: v["fault_kind"].as_u64().unwrap_or(0) as usize,
        chunk0: v["chunk0"].as_u64().unwrap() as usize,
        interrupts: v["interrupts"].as_u64().unwrap() as u32,
        menu_all: v["menu_all"].as_bool().unwrap_or(false),
        ctor: if v["ctor"].is_string() { Ctor::FromRead } else { Ctor::FromBufReader { cap: v["ctor"]["cap"].as_u64().unwrap() as usize, consume: v["ctor"]["consume"].as_u64().unwrap() as usize } },
        lie: if v["lie"].is_null() { None } else { Some((v["lie"][0].as_u64().unwrap() as u32, if v["lie"][1].as_i64() == Some(-1) { usize::MAX } else if v["lie"][1].as_i64() == Some(-2) { SHORT_SLICE_LIAR } else if v["lie"][1].as_i64() == Some(-3) { PANIC_SOURCE } else { v["lie"][1].as_u64().unwrap() as usize })) },
    }
}

/// Execute one transition (history + op with forced choices) with the full oracle.
/// Returns (choices taken by the op, problems, key, counters)
struct Trans {
    taken: Vec<(u32, u32)>,
    problems: Problems,
    key: Vec<u8>,
    realigned: bool,
    shrunk: bool,
    realign_with_mark_and_lookahead: bool,
    reads: u32,
    post_panic: bool,
    diverged: Option<String>,
}

fn transition(cfg: &Cfg, mode: Mode, data: &[u8], hist: &[Step], op: &ROp, prefix: &[(u32, u32)]) -> Trans {
    let describe = || {
        let mut h2 = hist.to_vec();
        h2.push(Step { op: op.clone(), choices: prefix.to_vec() });
        (format!("reader/{}", op_class(op)), format!("after {} earlier operation(s), {op:?} [{:?}, stream of {} bytes, chunk {}]", hist.len(), cfg.ctor, cfg.n, cfg.chunk0), replay_value(cfg, mode, &h2))
    };
    let _guard = mc_core::abortguard::enter(&describe);
    let base_len = forced_of(hist).len();
    let mut w = replay(cfg, mode, data, hist, prefix).expect("replay");
    let before = snapshot(&w);
    let st_before = w.reader.verif_state();
    let res = apply(&mut w, op);
    let mut problems = oracle(cfg, mode, data, &mut w, op, &before, &res);
    let st_after = w.reader.verif_state();
    let realigned = st_after.pos_of_buf != before.pos_of_buf;
    let shrunk = st_after.buf_len < before.vec_len;
    let key = key_of(&w);
    let (taken, diverged) = {
        let s = w.src.borrow();
        (s.chooser.taken[base_len.min(s.chooser.taken.len())..].to_vec(), s.chooser.diverged.clone())
    };
    let broken = problems.iter().any(|(c, _)| *c == "safety");
    let reads = w.src.borrow().read_calls - before.read_calls;
    let post_panic = w.model.resynced || w.model.lenient || cfg.lie.is_some();
    if !broken && mode != Mode::C09 && !(mode == Mode::C14 && (cfg.lie.is_some() || w.model.lenient || st_after.chunk_size == 0)) {
        if let Some(d) = drain(cfg, data, &mut w) {
            problems.push(("drain", d));
        }
    }
    Trans {
        taken,
        problems,
        key,
        realigned,
        shrunk,
        realign_with_mark_and_lookahead: realigned && st_before.valid_len > 0 && st_before.mark_in_buf != 0,
        reads,
        post_panic,
        diverged,
    }
}

fn expand(cfg: &Cfg, mode: Mode, tier: Tier, data: &[u8], hist: &Vec<Step>, report: &mut Report) -> Vec<(Vec<Step>, Vec<u8>)> {
    let w = match replay(cfg, mode, data, hist, &[]) {
        Ok(w) => w,
        Err(e) => {
            report.machinery_errors.push(e);
            return vec![];
        }
    };
    if safety(&w).is_some() {
        return vec![];
    }
    let ops = alphabet(cfg, mode, &w, tier);
    drop(w);
    let mut succ = Vec::new();
    for op in ops {
        let r = explore(
            None,
            |prefix| {
                let t = transition(cfg, mode, data, hist, &op, &prefix);
                if let Some(d) = t.diverged {
                    return Err(d);
                }
                report.evaluations += 1;
                report.transitions += 1;
                if t.realigned {
                    report.count("transitions_with_realign", 1);
                }
                if t.shrunk {
                    report.count("transitions_with_shrink", 1);
                }
                let nontrivial = match mode {
                    Mode::C02 => t.realign_with_mark_and_lookahead,
                    Mode::C09 => t.reads > 0,
                    Mode::C14 => t.post_panic,
                };
                if nontrivial {
                    report.nontrivial += 1;
                }
                let mut h2 = hist.clone();
                h2.push(Step { op: op.clone(), choices: t.taken.clone() });
                let mut bad = false;
                for (cat, what) in &t.problems {
                    if category_reported(mode, cat) {
                        bad = true;
                        let key = format!("reader/{}/{}", op_class(&op), cat);
                        report.violation_with(&key, (h2.len() * 100 + cfg.n) as u64, || {
                            (format!("after {} earlier operation(s), {op:?} [{:?}, stream of {} bytes, chunk {}, fault {:?}]: {what}", hist.len(), cfg.ctor, cfg.n, cfg.chunk0, cfg.fault_at), replay_value(cfg, mode, &h2))
                        });
                    }
                }
                report.outcome(format!("{}:{}", op_class(&op), t.problems.len()));
                if !bad {
                    succ.push((h2, t.key));
                }
                Ok(t.taken)
            },
            || false,
        );
        if let Err(e) = r {
            report.machinery_errors.push(format!("reader_mc: nondeterministic replay: {e}"));
        }
    }
    succ
}

pub fn configs(mode: Mode, tier: Tier) -> Vec<Cfg> {
    let mut v = Vec::new();
    let ns: &[usize] = match (mode, tier) {
        (Mode::C14, Tier::Quick) => &[0, 2, 4],
        (Mode::C14, Tier::Thorough) => &[0, 1, 2, 5, 9],
        (_, Tier::Quick) => &[0, 1, 2, 5, 7],
        (_, Tier::Thorough) => &[0, 1, 2, 5, 9, 14],
    };
    let chunks: &[usize] = tier.pick(&[1, 2][..], &[1, 2, 3, 5][..]);
    for &n in ns {
        let mut faults: Vec<Option<usize>> = vec![None, Some(0), Some(1), Some(n / 2), Some(n)];
        faults.retain(|f| f.map_or(true, |k| k <= n));
        faults.sort();
        faults.dedup();
        if tier == Tier::Quick {
            faults.retain(|f| matches!(f, None) || *f == Some(n / 2) || *f == Some(n));
        }
        for &chunk0 in chunks {
            for fault_at in &faults {
                v.push(Cfg { n, fault_at: *fault_at, fault_kind: 0, chunk0, ctor: Ctor::FromRead, interrupts: if n <= 5 { 2 } else { 1 }, lie: None, menu_all: false });
                // other non-Interrupted error kinds (UnexpectedEof, WouldBlock, TimedOut, InvalidData, WriteZero)
                if fault_at.is_some() && n >= 1 && n <= 5 {
                    let kinds: &[usize] = tier.pick(&[1, 2][..], &[1, 2, 3, 9, 13][..]);
                    for &fault_kind in kinds {
                        if tier == Tier::Quick && *fault_at != Some(n / 2) {
                            continue;
                        }
                        v.push(Cfg { n, fault_at: *fault_at, fault_kind, chunk0, ctor: Ctor::FromRead, interrupts: 0, lie: None, menu_all: false });
                    }
                }
            }
            // BufReader starts: empty, partly and fully consumed internal buffer
            let caps: &[usize] = tier.pick(&[0, 4][..], &[0, 1, 4, 8][..]);
            for &cap in caps {
                for consume in 0..=cap {
                    if tier == Tier::Quick && !(consume == 0 || consume == 1 || consume == cap) {
                        continue;
                    }
                    if mode == Mode::C14 && tier == Tier::Quick && consume != 1 {
                        continue;
                    }
                    v.push(Cfg { n, fault_at: None, fault_kind: 0, chunk0, ctor: Ctor::FromBufReader { cap, consume }, interrupts: 0, lie: None, menu_all: false });
                    if n > 2 {
                        v.push(Cfg { n, fault_at: Some(n - 1), fault_kind: 0, chunk0, ctor: Ctor::FromBufReader { cap, consume }, interrupts: 0, lie: None, menu_all: false });
                    }
                }
            }
            if mode == Mode::C14 {
                for at in 0..3u32 {
                    for claim in [1usize, usize::MAX, PANIC_SOURCE] {
                        v.push(Cfg { n, fault_at: None, fault_kind: 0, chunk0, ctor: Ctor::FromRead, interrupts: 0, lie: Some((at, claim)), menu_all: false });
                    }
                }
            }
        }
    }
    // long runs of Interrupted answers (a refill must keep retrying)
    if mode != Mode::C14 {
        for chunk0 in [1usize, 2] {
            v.push(Cfg { n: 2, fault_at: None, fault_kind: 0, chunk0, ctor: Ctor::FromRead, interrupts: 12, lie: None, menu_all: false });
        }
    }
    // the constructors' own chunk size (never overridden by set_chunk_size)
    for &n in ns {
        v.push(Cfg { n, fault_at: None, fault_kind: 0, chunk0: 0, ctor: Ctor::FromRead, interrupts: 0, lie: None, menu_all: false });
        for cap in [0usize, 1, 4] {
            v.push(Cfg { n, fault_at: None, fault_kind: 0, chunk0: 0, ctor: Ctor::FromBufReader { cap, consume: 0 }, interrupts: 0, lie: None, menu_all: false });
        }
    }
    if mode == Mode::C14 {
        // a source that over-reports only when it is handed less than a chunk (long enough streams
        // to fill the initial allocation)
        for chunk0 in [2usize, 3] {
            v.push(Cfg { n: tier.pick(9, 12), fault_at: None, fault_kind: 0, chunk0, ctor: Ctor::FromRead, interrupts: 0, lie: Some((0, SHORT_SLICE_LIAR)), menu_all: false });
        }
    }
    if mode == Mode::C09 {
        // a faulting source behind a BufReader: the BufReader's own fill already met the fault
        v.retain(|c| c.ctor == Ctor::FromRead || c.fault_at.is_none());
    }
    // largest streams first: better load balance over the workers
    v.sort_by_key(|c| std::cmp::Reverse(c.n));
    v
}

pub fn run(mode: Mode, tier: Tier, report: &mut Report) {
    let cfgs = configs(mode, tier);
    let budget = Budget::new(tier.pick(40.0, 1500.0));
    let max_states = tier.pick(400_000, 20_000_000);
    let results = mc_core::par::par_map(cfgs.len(), mc_core::threads(), |i| {
        let cfg = &cfgs[i];
        let data = stamped(cfg.n);
        let mut local = Report::new();
        if budget.expired() {
            local.cap(format!("time budget hit before configuration {cfg:?}"));
            return (local, None);
        }
        let w = build(cfg, &data, vec![]).unwrap();
        let k0 = key_of(&w);
        drop(w);
        let res = bfs(
            vec![(Vec::<Step>::new(), k0)],
            |h, rep| expand(cfg, mode, tier, &data, h, rep),
            max_states,
            64,
            &budget,
            1,
            &mut local,
        );
        (local, Some(res))
    });
    let mut closed = 0;
    let mut max_depth = 0;
    for (i, (local, res)) in results.into_iter().enumerate() {
        report.merge(local);
        if let Some(res) = res {
            report.states += res.states;
            max_depth = max_depth.max(res.depth);
            if res.closed {
                closed += 1;
            }
            if i < 3 || res.states > 50_000 {
                report.notes.push(format!("{:?}: {} states, {} transitions, depth {}, closed={}", cfgs[i], res.states, res.transitions, res.depth, res.closed));
            }
        }
    }
    report.count("configurations", cfgs.len() as u64);
    report.count("configurations_closed", closed);
    report.max("max_bfs_depth", max_depth as u64);
    report.traces = report.transitions;
    if closed as usize == cfgs.len() {
        report.completed.push(format!("all {} configurations searched to closure (empty frontier)", cfgs.len()));
    }
    // samples: a few histories written out
    for (ci, ops) in [
        (0usize, vec![ROp::Request(2), ROp::Advance(1), ROp::SetMark, ROp::RequestMore]),
        (cfgs.len() / 2, vec![ROp::ByteAt(4), ROp::AdvanceWithBuf(2), ROp::Request(7)]),
        (cfgs.len() - 1, vec![ROp::RequestMore, ROp::RequestMore, ROp::CheckIoError]),
    ] {
        let cfg = &cfgs[ci];
        let hist: Vec<Step> = ops.into_iter().map(|op| Step { op, choices: vec![] }).collect();
        report.sample(replay_value(cfg, mode, &hist));
    }
}

pub fn replay_file(v: &Value) -> (bool, String) {
    let mode = match v["property"].as_str().unwrap() {
        "C02" => Mode::C02,
        "C09" => Mode::C09,
        _ => Mode::C14,
    };
    let cfg = cfg_from_json(&v["cfg"]);
    let data = stamped(cfg.n);
    let hist: Vec<Step> = v["history"].as_array().unwrap().iter().map(|s| Step {
        op: op_from_json(&s["op"]),
        choices: s["choices"].as_array().unwrap().iter().map(|c| (c[0].as_u64().unwrap() as u32, c[1].as_u64().unwrap() as u32)).collect(),
    }).collect();
    let mut text = format!("DeferredReader, {cfg:?}\n");
    let mut violated = false;
    for i in 0..hist.len() {
        let t = transition(&cfg, mode, &data, &hist[..i], &hist[i].op, &hist[i].choices);
        let t2 = transition(&cfg, mode, &data, &hist[..i], &hist[i].op, &hist[i].choices);
        if format!("{:?}", t.problems) != format!("{:?}", t2.problems) || t.key != t2.key {
            text.push_str("  NONDETERMINISTIC REPLAY\n");
        }
        if let Some(d) = &t.diverged {
            text.push_str(&format!("  REPLAY DIVERGED: {d}\n"));
        }
        text.push_str(&format!("  {:2}. {:?} answers {:?}\n", i + 1, hist[i].op, t.taken.iter().map(|c| c.0).collect::<Vec<_>>()));
        for (cat, what) in &t.problems {
            if category_reported(mode, cat) {
                violated = true;
                text.push_str(&format!("      {cat}: {what}\n"));
            }
        }
        if t.problems.iter().any(|(c, _)| *c == "safety") {
            // the object is in a state in which further safe calls may be undefined behaviour
            text.push_str("      (history not continued beyond the broken SAFETY invariant)\n");
            break;
        }
    }
    (violated, text)
}

pub const RULE_C02: &str = "explicit-state BFS per configuration (stream length x fault offset x initial chunk size x construction via from_read / from_buf_reader with every consumed amount) over the alphabet {request(0,1,2,3,7), request_byte_at_offset(1,4), request_byte, request_more, advance / advance_with_buf (0,1,2,buf_len), set_mark, set_mark_to_position(0,pos-1,pos,pos+2), set_chunk_size(1,3), check_io_error} x every sequence of source answers (sizes {1,2,all that fits}, Interrupted within budget, fault, EOF); states deduplicated by the complete concrete reader state (hook) + source state; non-trivial = transitions in which a realign happened while a mark was set and look-ahead was buffered";

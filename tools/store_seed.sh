#!/bin/bash
# Development aid: copy a confirmed seed from a scratch worktree into seeded/ (meta.json is written by store_meta.py later)
#   store_seed.sh <worktree> <seed id, e.g. C03-22>
W=$1; S=$2
mkdir -p /verif/seeded/$S
cp $W/SEED/$S/patch.diff $W/SEED/$S/demo.rs /verif/seeded/$S/
[ -f $W/SEED/$S/notes.md ] && cp $W/SEED/$S/notes.md /verif/seeded/$S/
